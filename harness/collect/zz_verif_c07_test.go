//go:build verif

package collect

import (
	"fmt"
	"runtime"
	rtmetrics "runtime/metrics"
	"sort"
	"strings"
	"sync"
	"testing"
	"time"

	"github.com/honeycombio/refinery/config"
	"github.com/honeycombio/refinery/internal/verifkit"
	"github.com/honeycombio/refinery/metrics"
	"github.com/honeycombio/refinery/types"
)

// C07: when heap usage exceeds the configured limit every worker is asked to release
// (heap − limit)/workers bytes; a worker then decides its buffered traces heaviest estimated impact first
// until the data size released EXCEEDS that budget or its buffer is empty. Ejected traces are decided
// (forwarded or dropped exactly as the sampler says), reported with trace_send_ejected_memsize, and leave
// the buffer; nothing else leaves it.
//
// Engine E1. Two kinds of ejection steps:
//   direct   the driver sends the sendEarly message checkAlloc would send (E1.Eject) with a budget chosen
//            around the prefix sums of the impact-ordered buffer (P_k-1, P_k, P_k+1, 0, 1, Σ/2, Σ, 10Σ);
//   real     the driver parks the workers, sets MaxAlloc (or AvailableMemory×MaxMemoryPercentage) just below
//            the current heap, moves the fake clock onto the monitor goroutine's next tick — the REAL
//            monitor → checkAlloc path runs — takes the per-worker messages out of the (buffered) sendEarly
//            channels, compares them with (memory_heap_allocation gauge − limit)/workers, puts them back and
//            resumes the workers.
// Before either, while the workers are parked, every buffered trace is snapshotted: id, DataSize, span ids,
// root present, and Trace.CacheImpact(TraceTimeout) — which memoises the very value the worker's sort will
// read (ages come from the wall clock inside Refinery; the oracle never reads a clock). Span arrival times
// are backdated in-package so that the ×1…×6 age weight reorders traces relative to their size.
// After quiescence the oracle compares snapshot, buffer, forwarded events of the step and counter deltas.

// ---- adapters ------------------------------------------------------------------------------

func c07adPending(w *CollectorWorker) int { return len(w.sendEarly) }

func c07adSteal(w *CollectorWorker) (sendEarly, bool) {
	select {
	case m := <-w.sendEarly:
		return m, true
	default:
		return sendEarly{}, false
	}
}

func c07adPutBack(w *CollectorWorker, m sendEarly) { w.sendEarly <- m }

func c07adMsg(m sendEarly) (bytes int, wg *sync.WaitGroup) { return m.bytesToSend, m.wg }

const c07HeapGauge = NUMERATOR_MEMORY_HEAP_ALLOC

func c07adGaugeReset(e *E1) {
	e.met.mu.Lock()
	e.met.gauges[c07HeapGauge] = -1
	e.met.mu.Unlock()
}

func c07adGauge(e *E1) float64 {
	e.met.mu.Lock()
	defer e.met.mu.Unlock()
	v, ok := e.met.gauges[c07HeapGauge]
	if !ok {
		return -1
	}
	return v
}

func c07adMonitorTicks(e *E1) int64 { return e.health.ready.Load() } // Health.Ready is the first call of every monitor tick (+1 at start)

func c07adSetLimit(e *E1, maxAlloc, avail config.MemorySize, pct int) config.MemorySize {
	e.Cfg.Mux.Lock()
	e.Cfg.GetCollectionConfigVal.MaxAlloc = maxAlloc
	e.Cfg.GetCollectionConfigVal.AvailableMemory = avail
	e.Cfg.GetCollectionConfigVal.MaxMemoryPercentage = pct
	lim := e.Cfg.GetCollectionConfigVal.GetMaxAlloc()
	e.Cfg.Mux.Unlock()
	return lim
}

func c07ReadHeap() uint64 {
	s := []rtmetrics.Sample{{Name: metrics.RtMetricNameMemory}}
	rtmetrics.Read(s)
	return s[0].Value.Uint64()
}

// c07CheckAllocWaiting reports whether some goroutine is inside InMemCollector.checkAlloc and parked in
// sync.WaitGroup.Wait, i.e. checkAlloc has sent all the requests it is going to send.
func c07CheckAllocWaiting() bool {
	buf := make([]byte, 4<<20)
	buf = buf[:runtime.Stack(buf, true)]
	for _, g := range strings.Split(string(buf), "\n\n") {
		if strings.Contains(g, "(*InMemCollector).checkAlloc") && strings.Contains(g, "sync.(*WaitGroup).Wait") {
			return true
		}
	}
	return false
}

// ---- snapshot ------------------------------------------------------------------------------

type c07Snap struct {
	Worker   int      `json:"worker"`
	Trace    string   `json:"trace"`
	DataSize int      `json:"data_size"`
	Impact   int      `json:"cache_impact"` // Trace.CacheImpact: what the worker's sort reads
	Model    int      `json:"model_impact"` // Σ span data size × (⌊4·age/TraceTimeout⌋+1), ages from the driver's own bookkeeping
	NSpans   int      `json:"spans"`
	SpanIDs  []string `json:"span_ids"`
	HasRoot  bool     `json:"has_root"`
	Env      string   `json:"env"`
}

// c07Snapshot must run while all workers are parked.
func c07Snapshot(e *E1, timeout time.Duration, offsets map[string]time.Duration) [][]c07Snap {
	ws := e1adWorkers(e.coll)
	out := make([][]c07Snap, len(ws))
	for i, w := range ws {
		for _, tr := range e1adBuffered(w) {
			if tr.Sent {
				continue
			}
			s := c07Snap{Worker: i, Trace: tr.TraceID, DataSize: tr.DataSize, Impact: tr.CacheImpact(timeout), HasRoot: tr.RootSpan != nil, Env: tr.Environment}
			for _, sp := range tr.GetSpans() {
				id, _ := sp.Data.Get(e1FieldID).(string)
				s.SpanIDs = append(s.SpanIDs, id)
				s.Model += sp.GetDataSize() * c07AgeWeight(offsets[id], timeout)
			}
			s.NSpans = len(s.SpanIDs)
			out[i] = append(out[i], s)
		}
		sort.SliceStable(out[i], func(a, b int) bool {
			if out[i][a].Impact != out[i][b].Impact {
				return out[i][a].Impact > out[i][b].Impact
			}
			return out[i][a].Trace < out[i][b].Trace
		})
	}
	return out
}

// c07AgeWeight is the reference age weight of a span: 1 plus the number of completed quarters of TraceTimeout
// since its arrival. The driver never reads a clock for it: arrival times are moved into the past in-package by
// amounts it records (offset), always mid-quarter, so the few milliseconds a history really takes cannot change it.
func c07AgeWeight(offset, timeout time.Duration) int { return int(4*offset/timeout) + 1 }

// c07Backdate moves the arrival time of buffered spans into the past by extra(trace, span id, offset so far) and
// records the new offsets. Parked only.
func c07Backdate(e *E1, offsets map[string]time.Duration, extra func(trace, span string, cur time.Duration) time.Duration) {
	for _, w := range e1adWorkers(e.coll) {
		for _, tr := range e1adBuffered(w) {
			for _, sp := range tr.GetSpans() {
				id, _ := sp.Data.Get(e1FieldID).(string)
				if d := extra(tr.TraceID, id, offsets[id]); d > 0 {
					sp.ArrivalTime = sp.ArrivalTime.Add(-d)
					offsets[id] += d
				}
			}
		}
	}
}

// ---- monitor-synchronised clock ---------------------------------------------------------------

const c07MonTick = 100 * time.Millisecond

// c07Advance moves the fake clock by d; whenever it lands on a tick of the collector's monitor goroutine
// it waits (bounded) until that tick's checkAlloc has written the heap gauge (its last shared action when the
// limit is not exceeded), so the monitor is idle again before the driver goes on.
func c07Advance(e *E1, d time.Duration) {
	for d > 0 && e.Failed() == "" {
		now := e.Now()
		next := (now/c07MonTick + 1) * c07MonTick
		chunk := min(d, next-now)
		onTick := now+chunk == next
		r0 := c07adMonitorTicks(e)
		if onTick {
			c07adGaugeReset(e)
		}
		e.Advance(chunk)
		if onTick {
			// schedule shaping, not an oracle: the tick must have begun; then give its handler a bounded chance to
			// get past the memory check (a tree whose monitor does not measure memory must not hang the driver —
			// the real-check step below turns that into a verdict)
			e.waitFor("monitor tick begun", func() bool { return c07adGauge(e) != -1 || c07adMonitorTicks(e) > r0 })
			for i := 0; i < 400 && c07adGauge(e) == -1; i++ {
				runtime.Gosched()
			}
		}
		d -= chunk
	}
}

// ---- workload / oracle -------------------------------------------------------------------------

type c07Plan struct {
	ID   string
	Env  string
	Keep bool
}

type c07EjectObs struct {
	Kind    string      `json:"kind"` // direct | real
	Step    int         `json:"step"`
	Budgets []int       `json:"budget_per_worker"` // -1: worker not asked
	Before  [][]c07Snap `json:"buffer_before"`
	After   [][]string  `json:"buffer_after"`
	Heap    uint64      `json:"heap_gauge,omitempty"`
	Limit   uint64      `json:"limit,omitempty"`
}

func c07Predict(s c07Snap, plans map[string]*c07Plan) bool {
	switch s.Env {
	case "env-rules":
		return plans[s.Trace].Keep
	case "env-root":
		return s.HasRoot
	}
	return true // env-det: deterministic 1
}

func c07Pad(rng *verifkit.Rand, big bool) string {
	n := verifkit.Pick(rng, 0, 10, 100, 1000, 5000)
	if big {
		n = verifkit.Pick(rng, 2_000, 20_000, 100_000, 400_000)
	}
	return strings.Repeat("x", n)
}

func TestVerif_C07(t *testing.T) {
	run := verifkit.Start(t, "C07", "collect")
	defer run.Finish()
	defer e1TuneRuntime(run)()
	run.Rule("seeded buffers on the real collector (1-4 workers): 0-14 traces of 1-6 spans with payloads of 0-5000 bytes (2 KB-400 KB in histories with a real memory check), with and without root, over the span limit, partly aged on the fake clock, arrival times backdated by 0-5.5 quarter-timeouts; 1-4 ejection rounds per history with more spans in between; budgets from {0,1,P_k-1,P_k,P_k+1,Σ/2,Σ,10Σ,2^40} of the impact-ordered buffer of one worker, sent to one or all workers, or produced by the real monitor→checkAlloc with the limit set just below the heap; between rounds the survivors age by 1-3 quarter-timeouts and some receive another span; before a real memory check the configured Collection.WorkerCount is reloaded to another value in 60 % of the cases; in 26 % of the histories the kept-decision cache holds 1-2 records per worker, newer kept decisions push out the records of ejected traces and late spans re-buffer those ids before the next round; samplers with a driver-known decision (field rule, has-root rule, deterministic 1); non-trivial = a partial ejection (0<|E|<|buffer|) on a buffer whose impact order differs from its size order; distinct = (kind, workers, budget class, |buffer| and |E| buckets)")
	run.Assume("the ejection order is judged against Trace.CacheImpact(TraceTimeout) as read while the worker is parked (equal impacts in any order); that value itself is judged against the reference estimate Σ span data size × (1 + completed quarters of TraceTimeout since arrival), with ages known to the driver from its own backdating; a trace without a new span since the previous reading may still carry that reading")
	run.Assume("no span arrives and no send tick fires during an ejection step; kept-decision capacity far above the trace count; DryRun off")

	run.Cases("ejection", run.N(170, 800), func(ci int, rng *verifkit.Rand) {
		workers := verifkit.Pick(rng, 1, 2, 3, 4)
		tick := 250 * time.Millisecond // two monitor ticks (100ms) fit between two send ticks
		ttCfg := time.Duration(verifkit.Pick(rng, 0, 40, 100)) * time.Second
		tt := ttCfg
		if tt == 0 {
			tt = 60 * time.Second
		}
		withReal := rng.Chance(0.35)
		// tiny decision cache: kept records of ejected traces are forgotten quickly, so late spans re-buffer their ids
		tinyCache := !withReal && rng.Chance(0.4)
		var keptSize uint
		if tinyCache {
			workers = verifkit.Pick(rng, 1, 1, 2)
			keptSize = uint(workers * rng.Range(1, 2))
		}
		cfg := E1Config{Workers: workers, KeptSize: keptSize, AddRuleReason: rng.Chance(0.6), AddSpanCount: rng.Bool(),
			Traces: config.TracesConfig{SendTicker: config.Duration(tick), SendDelay: config.Duration(verifkit.Pick(rng, 500, 1000, 2000) * int(time.Millisecond)), TraceTimeout: config.Duration(ttCfg),
				SpanLimit: uint(verifkit.Pick(rng, 0, 0, 3)), MaxExpiredTraces: 3000},
			Samplers: map[string]*config.V2SamplerChoice{
				"env-rules": {RulesBasedSampler: &config.RulesBasedSamplerConfig{Rules: []*config.RulesBasedSamplerRule{
					{Name: "keep-marked", SampleRate: 1, Conditions: []*config.RulesBasedSamplerCondition{e1Cond("verif.keep", "=", "yes")}}, {Name: "drop-rest", Drop: true}}}},
				"env-root": {RulesBasedSampler: &config.RulesBasedSamplerConfig{Rules: []*config.RulesBasedSamplerRule{
					{Name: "rooted", SampleRate: 1, Conditions: []*config.RulesBasedSamplerCondition{{Operator: config.HasRootSpan, Value: true}}}, {Name: "rootless", Drop: true}}}},
				"env-det": {DeterministicSampler: &config.DeterministicSamplerConfig{SampleRate: 1}}}}
		e := e1Start(t, cfg)
		defer e.Stop()
		e.waitFor("monitor started", func() bool { return c07adMonitorTicks(e) >= 1 })

		plans := map[string]*c07Plan{}
		var order []*c07Plan
		offsets := map[string]time.Duration{} // span id → how far its ArrivalTime was moved into the past
		wallStart := time.Now()               // guard only: a run slower than TraceTimeout/16 does not judge the impact model
		ejected := map[string]bool{}          // trace ids that left the buffer by ejection (no more spans for them)
		addTraces := func(n int) {
			ages := map[string]time.Duration{}
			for ; n > 0; n-- {
				p := &c07Plan{ID: rng.Hex(32), Env: verifkit.Pick(rng, "env-rules", "env-rules", "env-root", "env-det"), Keep: rng.Chance(0.6)}
				plans[p.ID] = p
				order = append(order, p)
				nsp := rng.Range(1, 6)
				rootAt := -1
				if rng.Chance(0.4) {
					rootAt = rng.Intn(nsp)
				}
				for k := 0; k < nsp; k++ {
					kind := verifkit.Pick(rng, "child", "child", "event", "link")
					if k == rootAt {
						kind = "root"
					}
					s := e.NewSpan(p.ID, kind)
					s.Env, s.Dataset, s.Peer = p.Env, "ds-"+p.Env, rng.Chance(0.2)
					s.Fields = map[string]any{"verif.keep": e1KeepValue(p.Keep), "pad": c07Pad(rng, withReal)}
					_ = e.AddSpan(s)
				}
				if rng.Chance(0.6) {
					// age class k: multiplier k+1, placed mid-class so that run time cannot move it
					k := rng.Intn(6)
					ages[p.ID] = time.Duration(k)*tt/4 + tt/8
				}
			}
			e.Inspect(func(*E1View) {
				c07Backdate(e, offsets, func(trace, _ string, cur time.Duration) time.Duration {
					if cur == 0 {
						return ages[trace]
					}
					return 0
				})
			})
		}
		// ageBuffered lets every buffered span grow older by m quarters of TraceTimeout (what a wall-clock wait of that
		// length does to Span.ArrivalTime-based ages), keeping every span mid-quarter.
		ageBuffered := func(m int) {
			e.Inspect(func(*E1View) {
				c07Backdate(e, offsets, func(_, _ string, cur time.Duration) time.Duration {
					d := time.Duration(m) * tt / 4
					if (cur+d)%(tt/4) == 0 {
						d += tt / 8
					}
					return d
				})
			})
		}
		// checkImpacts: the impact the worker will order by (Trace.CacheImpact, memoised) against the reference
		// estimate. A trace that received a span since the estimate was last read must have been re-estimated;
		// a trace without new spans may still carry the estimate of that earlier reading.
		type c07Eval struct{ nSpans, used int }
		lastEval := map[string]c07Eval{}
		checkImpacts := func(snaps [][]c07Snap, kind string) {
			if time.Since(wallStart) > tt/16 {
				run.Count("impact_model_checks_skipped_slow_run", 1)
				return
			}
			for _, S := range snaps {
				for _, sn := range S {
					prev, seen := lastEval[sn.Trace]
					cls := "first-estimate"
					ok := sn.Impact == sn.Model
					switch {
					case seen && prev.nSpans == sn.NSpans:
						cls = "no-new-span-since-last-estimate"
						ok = ok || sn.Impact == prev.used
					case seen:
						cls = "new-span-since-last-estimate"
					}
					run.Count("impact_model_checks_"+cls, 1)
					if !ok {
						run.Violation("C07/impact/"+kind+"/estimate-differs-from-size-times-age-weight/"+cls,
							fmt.Sprintf("trace %s (%d spans): the impact used for the ejection order is %d, Σ span size × age weight is %d (previous estimate: %+v)", sn.Trace, sn.NSpans, sn.Impact, sn.Model, prev),
							map[string]any{"config": cfg.describe(), "trace": sn, "previous_estimate": prev, "seen_before": seen, "trace_timeout": tt.String(), "buffer": S, "ops": e.Ops()})
					}
					lastEval[sn.Trace] = c07Eval{sn.NSpans, sn.Impact}
				}
			}
		}

		var obsLog []c07EjectObs
		abandoned := false
		var ejectedKept []string // ids of traces ejected and kept so far (their records can be forgotten by a tiny cache)

		// judge compares snapshot, post-state, step events and counter deltas of one ejection step.
		judge := func(o *c07EjectObs, ctr0 map[string]int64) {
			after := make([][]string, workers)
			afterSet := map[string]bool{}
			var sentStill []E1Buffered
			var recorded []map[string]any
			recordedKept := 0
			e.Inspect(func(v *E1View) {
				for _, b := range v.Buffered() {
					if !b.Sent {
						after[b.Worker] = append(after[b.Worker], b.Trace)
						afterSet[b.Trace] = true
						// a lookup of an id the cache does not know changes nothing in it
						if dec := v.CheckTrace(b.Trace); dec.Found {
							recorded = append(recorded, map[string]any{"trace": b.Trace, "worker": b.Worker, "record": dec})
							if dec.Kept {
								recordedKept++
							}
						}
					} else {
						sentStill = append(sentStill, b)
					}
				}
			})
			o.After = after
			wit := func(extra any) map[string]any {
				return map[string]any{"config": cfg.describe(), "ejection": o, "detail": extra, "ops": e.Ops()}
			}
			// decided ⇔ ejected: no decision may be recorded for a trace that stays buffered and undecided. Decisions
			// made (makeDecision: has_root + no_root) and applied (send: kept + dropped) must move together, and the
			// decision cache must not know a buffered trace. A "dropped" answer alone can be a cuckoo false positive,
			// so it counts only together with the counter imbalance; a kept record is exact.
			phantom := (e.Counter("trace_send_has_root") + e.Counter("trace_send_no_root") - ctr0["trace_send_has_root"] - ctr0["trace_send_no_root"]) -
				(e.Counter("trace_send_kept") + e.Counter("trace_send_dropped") - ctr0["trace_send_kept"] - ctr0["trace_send_dropped"])
			switch {
			case phantom != 0 || recordedKept > 0:
				run.Violation("C07/ejection/"+o.Kind+"/decision-recorded-for-trace-left-in-buffer",
					fmt.Sprintf("the ejection step made %d more sampling decisions than it applied; %d trace(s) still buffered and not sent are known to the decision cache (%d as kept)", phantom, len(recorded), recordedKept),
					wit(map[string]any{"decisions_made_minus_applied": phantom, "buffered_traces_with_a_record": recorded}))
			case len(recorded) > 0:
				run.Count("buffered_traces_answered_dropped_by_filter_without_decision", int64(len(recorded)))
			}
			if len(sentStill) > 0 {
				run.Violation("C07/ejected-trace/"+o.Kind+"/decided-but-still-in-buffer", fmt.Sprintf("%d trace(s) were decided and sent by the ejection but are still held in the worker's trace buffer", len(sentStill)), wit(sentStill[:min(3, len(sentStill))]))
			}
			stepEvents := map[string][]E1Event{} // by trace
			for _, ev := range e.Events() {
				if ev.Step == o.Step {
					stepEvents[ev.Trace] = append(stepEvents[ev.Trace], ev)
				}
			}
			wantKept, wantDropped := 0, 0
			allE := map[string]bool{}
			for w := 0; w < workers; w++ {
				S := o.Before[w]
				B := o.Budgets[w]
				inS := map[string]bool{}
				var E, R []c07Snap
				for _, s := range S {
					inS[s.Trace] = true
					if afterSet[s.Trace] {
						R = append(R, s)
					} else {
						E = append(E, s)
						allE[s.Trace] = true
					}
				}
				for _, id := range after[w] {
					if !inS[id] {
						run.Violation("C07/harness/trace-appeared-during-ejection-step", "a trace not in the snapshot is buffered after the step", wit(id))
					}
				}
				cls := o.Kind
				if B < 0 {
					if len(E) > 0 {
						run.Violation("C07/eject/"+cls+"/worker-not-asked-ejected-traces", fmt.Sprintf("worker %d was not asked to eject but %d trace(s) left its buffer", w, len(E)), wit(E))
					}
					continue
				}
				sumE, minE, maxLastDS := 0, 0, 0
				for i, s := range E {
					sumE += s.DataSize
					if i == 0 || s.Impact < minE {
						minE = s.Impact
					}
				}
				for _, s := range E {
					if s.Impact == minE && s.DataSize > maxLastDS {
						maxLastDS = s.DataSize
					}
				}
				orderDiffers := false
				for i := range S {
					for j := range S {
						if S[i].Impact > S[j].Impact && S[i].DataSize < S[j].DataSize {
							orderDiffers = true
						}
					}
				}
				switch {
				case len(S) > 0 && len(E) == 0:
					run.Violation("C07/eject/"+cls+"/nothing-ejected-from-nonempty-buffer", fmt.Sprintf("worker %d asked to release %d bytes with %d traces buffered ejected none", w, B, len(S)), wit(nil))
				case len(E) > 0:
					for _, r := range R {
						if r.Impact > minE {
							run.Violation("C07/eject/"+cls+"/not-heaviest-first", fmt.Sprintf("worker %d ejected a trace of impact %d but kept trace %s of impact %d", w, minE, r.Trace, r.Impact), wit(map[string]any{"ejected": E, "remaining": R}))
							break
						}
					}
					if len(R) > 0 && sumE <= B {
						run.Violation("C07/eject/"+cls+"/stopped-before-released-exceeds-budget", fmt.Sprintf("worker %d released %d bytes ≤ budget %d and stopped with %d traces still buffered", w, sumE, B, len(R)), wit(map[string]any{"ejected": E, "remaining": R}))
					}
					if sumE-maxLastDS > B {
						run.Violation("C07/eject/"+cls+"/continued-after-released-exceeded-budget", fmt.Sprintf("worker %d released %d bytes for a budget of %d: already %d before its last (lightest) ejection", w, sumE, B, sumE-maxLastDS), wit(map[string]any{"ejected": E, "remaining": R}))
					}
				}
				if len(E) > 0 && len(R) > 0 {
					run.Count("partial_ejections_"+o.Kind, 1)
					if orderDiffers {
						bc := "mid"
						switch {
						case B == 0:
							bc = "0"
						case B == 1:
							bc = "1"
						}
						run.Nontrivial(fmt.Sprintf("%s w%d b%s S%d E%d", o.Kind, workers, bc, min(len(S), 8), min(len(E), 6)))
					}
				}
				run.Count("traces_ejected", int64(len(E)))
				run.Count("traces_remaining", int64(len(R)))
				// every ejected trace is decided as the sampler says and forwarded exactly once if kept
				for _, s := range E {
					keep := c07Predict(s, plans)
					evs := stepEvents[s.Trace]
					if !keep {
						wantDropped++
						if len(evs) > 0 {
							run.Violation("C07/ejected-trace/"+cls+"/forwarded-although-sampler-drops", fmt.Sprintf("trace %s (%s) is dropped by its sampler but %d span(s) were forwarded on ejection", s.Trace, s.Env, len(evs)), wit(s))
						}
						continue
					}
					wantKept++
					ejectedKept = append(ejectedKept, s.Trace)
					seen := map[string]int{}
					for _, ev := range evs {
						seen[ev.ID]++
						if cfg.AddRuleReason {
							if sr, _ := ev.Fields[types.MetaRefinerySendReason].(string); sr != TraceSendEjectedMemsize {
								run.Violation("C07/ejected-trace/"+cls+"/send-reason-field-not-ejected-memsize", fmt.Sprintf("span %s of ejected trace %s has %s=%q", ev.ID, s.Trace, types.MetaRefinerySendReason, sr), wit(s))
							}
						}
					}
					bad := len(seen) != len(s.SpanIDs)
					for _, id := range s.SpanIDs {
						if seen[id] != 1 {
							bad = true
						}
					}
					if bad {
						run.Violation("C07/ejected-trace/"+cls+"/kept-spans-not-forwarded-exactly-once", fmt.Sprintf("trace %s (%s, kept by its sampler) left the buffer with spans %v; forwarded in the step: %v", s.Trace, s.Env, s.SpanIDs, seen), wit(s))
					}
				}
			}
			for id, evs := range stepEvents {
				if !allE[id] {
					run.Violation("C07/eject/"+o.Kind+"/forwarded-a-trace-that-did-not-leave-the-buffer", fmt.Sprintf("%d span(s) of trace %s were forwarded in the ejection step although it was not buffered before or is still buffered", len(evs), id), wit(nil))
				}
			}
			d := func(name string) int64 { return e.Counter(name) - ctr0[name] }
			if got := d("trace_send_kept") + d("trace_send_dropped"); got != int64(len(allE)) {
				run.Violation("C07/ejected-trace/"+o.Kind+"/left-buffer-without-decision", fmt.Sprintf("%d traces left the buffer, Refinery counted %d kept + %d dropped decisions sent", len(allE), d("trace_send_kept"), d("trace_send_dropped")), wit(nil))
			} else if d("trace_send_kept") != int64(wantKept) {
				run.Violation("C07/ejected-trace/"+o.Kind+"/decision-differs-from-sampler", fmt.Sprintf("samplers keep %d and drop %d of the ejected traces, Refinery kept %d and dropped %d", wantKept, wantDropped, d("trace_send_kept"), d("trace_send_dropped")), wit(nil))
			}
			if d(TraceSendEjectedMemsize) != d("trace_send_kept") || d(TraceSendGotRoot)+d(TraceSendExpired)+d(TraceSendSpanLimit)+d(TraceSendEjectedFull) != 0 {
				run.Violation("C07/ejected-trace/"+o.Kind+"/send-reason-metric-not-ejected-memsize", fmt.Sprintf("kept %d ejected traces; %s +%d, got_root +%d, expired +%d, span_limit +%d, ejected_full +%d", d("trace_send_kept"), TraceSendEjectedMemsize, d(TraceSendEjectedMemsize), d(TraceSendGotRoot), d(TraceSendExpired), d(TraceSendSpanLimit), d(TraceSendEjectedFull)), wit(nil))
			}
			for id := range allE {
				ejected[id] = true
			}
			run.Count("ejection_steps_"+o.Kind, 1)
			run.Count("ejected_kept", int64(wantKept))
			run.Count("ejected_dropped", int64(wantDropped))
			obsLog = append(obsLog, *o)
		}
		counters := func() map[string]int64 {
			m := map[string]int64{}
			for _, n := range []string{"trace_send_has_root", "trace_send_no_root", "trace_send_kept", "trace_send_dropped", TraceSendEjectedMemsize, TraceSendGotRoot, TraceSendExpired, TraceSendSpanLimit, TraceSendEjectedFull} {
				m[n] = e.Counter(n)
			}
			return m
		}
		pickBudget := func(S []c07Snap) int {
			sum := 0
			var prefix []int
			for _, s := range S {
				sum += s.DataSize
				prefix = append(prefix, sum)
			}
			switch k := rng.Intn(10); {
			case k == 0:
				return 0
			case k == 1:
				return 1
			case k == 2:
				return sum / 2
			case k == 3:
				return sum
			case k == 4:
				return verifkit.Pick(rng, 10*sum, 1<<40)
			case k == 5 && sum > 0:
				return sum - 1
			default:
				if len(prefix) == 0 {
					return verifkit.Pick(rng, 0, 1, 500)
				}
				return max(0, prefix[rng.Intn(len(prefix))]+verifkit.Pick(rng, -1, 0, 0, 1))
			}
		}

		directEject := func() {
			var snaps [][]c07Snap
			e.Inspect(func(*E1View) { snaps = c07Snapshot(e, tt, offsets) })
			checkImpacts(snaps, "direct")
			target := rng.Intn(workers+1) - 1 // -1: all workers, the way checkAlloc does it
			ref := target
			if ref < 0 {
				ref = rng.Intn(workers)
			}
			B := pickBudget(snaps[ref])
			budgets := make([]int, workers)
			for w := range budgets {
				budgets[w] = -1
				if target < 0 || w == target {
					budgets[w] = B
				}
			}
			c0 := counters()
			e.Eject(target, B)
			if e.Failed() != "" {
				return
			}
			judge(&c07EjectObs{Kind: "direct", Step: e.Step(), Budgets: budgets, Before: snaps}, c0)
		}

		realEject := func() {
			wcClass := ""
			if rng.Chance(0.6) {
				wcClass = "/after-worker-count-reload"
				// the CONFIGURED worker count changes; the set of running workers is fixed since Start
				wc := verifkit.Pick(rng, 1, 2, 3, 8, 32)
				if wc == workers {
					wc = workers + 5
				}
				e.Reload(fmt.Sprintf("Collection.WorkerCount %d -> %d", workers, wc), func(m *config.MockConfig) { m.GetCollectionConfigVal.WorkerCount = wc })
				run.Count("real_checks_after_worker_count_reload", 1)
			}
			// position: the next two monitor ticks must come before the next send tick
			for i := 0; i < 8 && e.Failed() == ""; i++ {
				now := e.Now()
				m2 := (now/c07MonTick + 2) * c07MonTick
				w := (now/tick + 1) * tick
				if m2 < w {
					break
				}
				c07Advance(e, w-now)
			}
			if e.Failed() != "" {
				return
			}
			now := e.Now()
			m1 := (now/c07MonTick + 1) * c07MonTick
			if m1+c07MonTick >= (now/tick+1)*tick {
				run.Count("real_checks_skipped_positioning", 1)
				return
			}
			e.beginStep()
			if !e.park() {
				return
			}
			snaps := c07Snapshot(e, tt, offsets)
			checkImpacts(snaps, "real")
			ref := rng.Intn(workers)
			target := pickBudget(snaps[ref])
			if target > 1<<30 {
				target = 1 << 30
			}
			delta := uint64(target)*uint64(workers) + uint64(verifkit.Pick(rng, 0, 1, workers-1))
			delta = max(delta, 48<<10) // stay clear of the heap shrinking a little between our reading and checkAlloc's
			runtime.GC()
			h0 := c07ReadHeap()
			if h0 <= delta+1 {
				e.resume()
				return
			}
			want := h0 - delta
			var limit config.MemorySize
			how := "MaxAlloc"
			if rng.Chance(0.3) {
				pct := verifkit.Pick(rng, 50, 75, 100)
				limit = c07adSetLimit(e, 0, config.MemorySize((want*100+uint64(pct)-1)/uint64(pct)), pct)
				how = fmt.Sprintf("AvailableMemory×%d%%", pct)
			} else {
				limit = c07adSetLimit(e, config.MemorySize(want), 0, 0)
			}
			e.logOp("check-alloc", map[string]any{"limit": uint64(limit), "via": how, "heap_before": h0})
			c0 := counters()
			c07adGaugeReset(e)
			r0 := c07adMonitorTicks(e)
			ws := e1adWorkers(e.coll)
			allPending := func() bool {
				for _, w := range ws {
					if c07adPending(w) != 1 {
						return false
					}
				}
				return true
			}
			somePending := func() bool {
				for _, w := range ws {
					if c07adPending(w) == 1 {
						return true
					}
				}
				return false
			}
			underLimit := func() bool { g := c07adGauge(e); return g >= 0 && uint64(g) < uint64(limit) }
			e.clock.Advance(m1 - now)
			// wait (schedule shaping only) for the requests, or for a reading below the limit
			deadline := time.Now().Add(time.Second)
			for i := 0; !allPending() && !underLimit() && time.Now().Before(deadline); i++ {
				if i < 200 {
					runtime.Gosched()
				} else {
					time.Sleep(50 * time.Microsecond)
				}
			}
			finish := func(msgs []sendEarly, idx []int) {
				c07adSetLimit(e, 0, 0, 0)
				var wg *sync.WaitGroup
				for i, m := range msgs {
					c07adPutBack(ws[idx[i]], m)
					_, wg = c07adMsg(m)
				}
				e.resume()
				if wg != nil {
					done := make(chan struct{})
					go func() { wg.Wait(); close(done) }()
					select {
					case <-done:
					case <-time.After(e1Watchdog):
						e.fail("ejection requested by checkAlloc not completed")
						return
					}
				}
				e.quiesce(0)
			}
			if !allPending() {
				if underLimit() {
					run.Count("real_checks_heap_below_limit", 1)
					finish(nil, nil)
					return
				}
				// Deterministic verdict instead of a timeout: let the monitor's NEXT tick begin. The monitor is one
				// goroutine; once it has started tick 2, its handling of tick 1 (with the limit set) is over.
				// A checkAlloc that has asked only some workers is blocked in WaitGroup.Wait (the asked workers are
				// parked); that state is read from the goroutine dump, not inferred from elapsed time.
				c07adSetLimit(e, 0, 0, 0)
				e.clock.Advance(c07MonTick)
				polls := 0
				ok := e.waitFor("monitor's next tick or ejection requests", func() bool {
					if allPending() || c07adMonitorTicks(e) >= r0+2 {
						return true
					}
					if polls++; polls%512 == 0 && somePending() && c07CheckAllocWaiting() {
						return true
					}
					return false
				})
				if !ok {
					return
				}
				if !allPending() {
					var msgs []sendEarly
					var idx []int
					for i, w := range ws {
						if m, ok := c07adSteal(w); ok {
							msgs, idx = append(msgs, m), append(idx, i)
						}
					}
					g := c07adGauge(e)
					wit := map[string]any{"config": cfg.describe(), "limit": uint64(limit), "via": how, "heap_read_by_driver_before": h0, "heap_gauge_written_by_checkAlloc": g, "workers_asked": idx, "ops": e.Ops()}
					switch {
					case len(msgs) > 0:
						run.Violation("C07/checkAlloc/request-not-sent-to-every-worker", fmt.Sprintf("checkAlloc (heap %v, limit %d) asked only %d of %d workers to eject before waiting for completion", g, limit, len(msgs), workers), wit)
					case g < 0:
						run.Violation("C07/checkAlloc/monitor-tick-did-not-measure-memory", "a monitor tick completed without writing the heap gauge: memory pressure is not checked", wit)
					case uint64(g) > uint64(limit):
						run.Violation("C07/checkAlloc/no-ejection-request-although-heap-exceeds-limit", fmt.Sprintf("checkAlloc measured heap %d > limit %d and returned without asking any worker to eject", uint64(g), limit), wit)
					}
					abandoned = true
					finish(msgs, idx)
					return
				}
			}
			var msgs []sendEarly
			var idx []int
			budgets := make([]int, workers)
			for i, w := range ws {
				m, ok := c07adSteal(w)
				if !ok {
					e.fail("pending ejection request vanished")
					e.resume()
					return
				}
				msgs, idx = append(msgs, m), append(idx, i)
				budgets[i], _ = c07adMsg(m)
			}
			g := c07adGauge(e)
			heap := uint64(g)
			o := &c07EjectObs{Kind: "real", Step: e.Step(), Budgets: budgets, Before: snaps, Heap: heap, Limit: uint64(limit)}
			if g < 0 || heap < uint64(limit) {
				run.Violation("C07/checkAlloc/ejection-requested-while-heap-below-limit", fmt.Sprintf("workers were asked to eject with heap gauge %v and limit %d", g, limit), map[string]any{"config": cfg.describe(), "ejection": o, "ops": e.Ops()})
			} else {
				share := int(heap-uint64(limit)) / workers
				for w, b := range budgets {
					if b != share {
						run.Violation("C07/checkAlloc/overage-not-split-evenly"+wcClass, fmt.Sprintf("heap %d, limit %d, %d running workers: each share is %d bytes, worker %d was asked for %d", heap, limit, workers, share, w, b),
							map[string]any{"config": cfg.describe(), "ejection": o, "via": how, "ops": e.Ops()})
						break
					}
				}
			}
			finish(msgs, idx)
			if e.Failed() != "" {
				return
			}
			run.Count("real_check_budget_bytes", int64(budgets[0]))
			run.Count("real_check_heap_growth_since_driver_reading_bytes", int64(heap)-int64(h0))
			judge(o, c0)
		}

		// ---- the history ---------------------------------------------------------------------
		addTraces(rng.Range(0, 14))
		if rng.Chance(0.4) {
			c07Advance(e, verifkit.Pick(rng, tick, 2*tick, 600*time.Millisecond, 1100*time.Millisecond, 2300*time.Millisecond))
		}
		nEj := rng.Range(1, 4)
		realAt := -1
		if withReal {
			realAt = rng.Intn(nEj)
		}
		for k := 0; k < nEj && e.Failed() == "" && !abandoned; k++ {
			if k > 0 && tinyCache && len(ejectedKept) > 0 {
				// push the kept records of earlier ejections out of the tiny kept-decision LRU with newer kept decisions
				// (rooted, deterministic-1 traces decided normally), then send late spans for the ejected ids: an id the
				// cache has forgotten is buffered again as a new trace and must survive later rounds like any other
				for n := workers * rng.Range(2, 4); n > 0; n-- {
					p := &c07Plan{ID: rng.Hex(32), Env: "env-det", Keep: true}
					plans[p.ID] = p
					s := e.NewSpan(p.ID, "root")
					s.Env, s.Dataset = p.Env, "ds-"+p.Env
					s.Fields = map[string]any{"verif.keep": "yes", "pad": "x"}
					_ = e.AddSpan(s)
				}
				sd, _ := e.EffectiveTimes()
				c07Advance(e, sd+tick)
				for _, id := range ejectedKept {
					if rng.Chance(0.7) {
						p := plans[id]
						s := e.NewSpan(p.ID, "child")
						s.Env, s.Dataset = p.Env, "ds-"+p.Env
						s.Fields = map[string]any{"verif.keep": e1KeepValue(p.Keep), "pad": c07Pad(rng, false)}
						_ = e.AddSpan(s)
						run.Count("late_spans_for_ejected_ids_in_tiny_cache_histories", 1)
					}
				}
			}
			if k > 0 {
				// survivors of the previous round grow older, then some of them receive another span
				if rng.Chance(0.6) {
					ageBuffered(rng.Range(1, 3))
				}
				var still []string
				e.Inspect(func(v *E1View) {
					for _, b := range v.Buffered() {
						still = append(still, b.Trace)
					}
				})
				for n := rng.Range(0, 4); n > 0 && len(still) > 0; n-- {
					p := plans[still[rng.Intn(len(still))]]
					s := e.NewSpan(p.ID, "child")
					s.Env, s.Dataset = p.Env, "ds-"+p.Env
					s.Fields = map[string]any{"verif.keep": e1KeepValue(p.Keep), "pad": c07Pad(rng, withReal)}
					_ = e.AddSpan(s)
				}
				addTraces(rng.Range(0, 6))
				if rng.Chance(0.3) {
					c07Advance(e, verifkit.Pick(rng, tick, 2*tick, 700*time.Millisecond))
				}
			}
			if k == realAt {
				realEject()
			} else {
				directEject()
			}
		}
		if e.Failed() != "" {
			run.Inconclusive(e.Failed())
			return
		}
		// late spans for ejected traces follow the decision (C01's subject; exercised here, judged at the end)
		e.Flush(true)
		if e.Failed() != "" {
			run.Inconclusive(e.Failed())
			return
		}
		f := e.Finalize()
		if e.Failed() != "" {
			run.Inconclusive(e.Failed())
			return
		}
		if abandoned {
			return
		}
		if tinyCache {
			// conservation at the end of the history instead of the record check (records are forgotten on purpose):
			// every accepted span of a trace its sampler keeps is at the transmission exactly once
			for _, id := range f.Order {
				obs := f.Traces[id]
				p := plans[id]
				if p == nil || !(p.Env == "env-det" || (p.Env == "env-rules" && p.Keep)) {
					continue
				}
				for _, a := range obs.Accepted {
					if n := len(obs.Forwarded[a.Span.ID]); n != 1 {
						run.Violation("C07/conservation/span-of-kept-trace-not-forwarded-exactly-once", fmt.Sprintf("span %s of trace %s (%s, kept by its sampler) reached the transmission %d times by the end of the history", a.Span.ID, id, p.Env, n),
							map[string]any{"config": cfg.describe(), "trace": id, "accepted": obs.Accepted, "forwarded": obs.Forwarded, "ejections": obsLog, "ops": e.Ops()})
						break
					}
				}
			}
			run.Count("tiny_cache_histories", 1)
			run.Count("events_forwarded", int64(e.EventCount()))
			run.Count("steps", int64(e.Step()))
			return
		}
		// end of history: every ejected trace has a decision on record that matches the sampler
		for _, o := range obsLog {
			for _, S := range o.Before {
				for _, s := range S {
					if !ejected[s.Trace] {
						continue
					}
					obs := f.Traces[s.Trace]
					if obs == nil {
						continue
					}
					keep := c07Predict(s, plans)
					if !obs.Final.Found {
						if keep || f.FilterLag == 0 {
							run.Violation("C07/ejected-trace/no-decision-on-record", fmt.Sprintf("trace %s was ejected at step %d; the decision cache does not know it at the end of the history", s.Trace, o.Step),
								map[string]any{"config": cfg.describe(), "ejection": o, "trace": s, "ops": e.Ops()})
						} else {
							run.Count("dropped_filter_lag_unjudged", 1)
						}
						continue
					}
					if obs.Final.Kept != keep && !(obs.Final.Found && !obs.Final.Kept && f.DropFilterExcess() > 0 && f.PhantomDecisions() == 0) {
						run.Violation("C07/ejected-trace/recorded-decision-differs-from-sampler", fmt.Sprintf("trace %s ejected at step %d: sampler keeps=%v, decision cache says kept=%v", s.Trace, o.Step, keep, obs.Final.Kept),
							map[string]any{"config": cfg.describe(), "ejection": o, "trace": s, "ops": e.Ops()})
					}
					delete(ejected, s.Trace) // judge each trace once
				}
			}
		}
		if len(f.BufferLeft) > 0 {
			run.Count("traces_buffered_after_flush", int64(len(f.BufferLeft)))
		}
		run.Count("events_forwarded", int64(e.EventCount()))
		run.Count("steps", int64(e.Step()))
		if ci < 2 && len(obsLog) > 0 {
			run.Sample(map[string]any{"config": cfg.describe(), "first_ejection": obsLog[0]})
		}
	})
}
