//go:build verif

package collect

import (
	"fmt"
	"strings"
	"testing"

	"github.com/honeycombio/refinery/config"
	"github.com/honeycombio/refinery/internal/verifkit"
)

// C05: with DryRun on, every span handled by the collector is forwarded, with the client's sample rate
// (absent ≡ 0 ≡ 1) and with meta.refinery.dryrun.kept equal to the decision the sampler made. The only
// permitted absences are spans dropped by stress relief.
//
// Oracle over the E1 event log of a dry-run lifecycle history (after the bounded-progress flush):
//   * every accepted span that was not answered "dropped" by ProcessSpanImmediately is at the recorder
//     exactly once;
//   * max(SampleRate,1) at the recorder == max(client rate,1) (spans that took the sampler path);
//   * meta.refinery.dryrun.kept is present and boolean on every span that took the sampler path;
//   * for traces decided by a sampler whose outcome the driver can predict (deterministic by trace id,
//     rules on a field that all spans of the trace carry) the value equals that prediction, using the
//     sampler definition in force (after the last completed reload) at the step the trace was decided;
//   * for all traces: the value is the same on all sampler-path spans of the trace, late ones included,
//     and equals the decision cache's final answer when it has one.
// Traces touched by the stress path are only checked for presence (no sampler made their decision).

const c05DryField = config.DryRunFieldName

type c05Witness struct {
	Config   any                  `json:"config"`
	Trace    string               `json:"trace"`
	Sampler  string               `json:"sampler_in_force,omitempty"`
	Expected *bool                `json:"expected_keep,omitempty"`
	Final    E1Decision           `json:"final_check_trace"`
	Accepted []E1Added            `json:"accepted_spans"`
	Forward  map[string][]E1Event `json:"forwarded"`
	Ops      []E1Op               `json:"ops"`
}

type c05DefAt struct {
	step int
	def  E1SamplerDef
}

func TestVerif_C05(t *testing.T) {
	run := verifkit.Start(t, "C05", "collect")
	defer run.Finish()
	defer e1TuneRuntime(run)()
	run.Rule("seeded dry-run lifecycle histories (same step alphabet as C01: spans of all kinds via both entry points, bursts, clock advances around SendDelay/TraceTimeout, span limit, MaxExpiredTraces backlog, ejections, sampler reloads; plus, in a third of the histories, spans handled by ProcessSpanImmediately under scripted stress); two thirds use only samplers whose decision the driver predicts; non-trivial = a would-be-dropped trace received a late span AND a would-be-kept trace exists; distinct = abstract history signature")
	run.Assume("list dry-run: DryRun on for the whole history; list dry-run-toggled: DryRun switched by MockConfig reloads at quiescent points, each clause applied per span with the value in force in the step the span was forwarded; kept-decision capacity is far above the number of traces (no record ages out)")
	run.Assume("prediction of deterministic samplers comes from a private instance of the real DeterministicSampler; rules predictions from a field every span of the trace carries")

	steps := run.N(60, 150)
	one := func(label string, i int, rng *verifkit.Rand, p E1Profile) {
		var h *E1History
		if label == "stalled" {
			h = e1GenStalledHistory(rng, true)
		} else {
			h = e1GenHistory(rng, p)
		}
		planOf := map[string]*e1TracePlan{}
		for _, pl := range h.Plans {
			planOf[pl.ID] = pl
		}
		defsAt := map[string][]c05DefAt{}
		for env, d := range h.Defs {
			defsAt[env] = []c05DefAt{{0, d}}
		}
		e := h.Run(t, nil, func(e *E1, st e1Step) {
			if st.Op == "reload-sampler" {
				defsAt[st.Env] = append(defsAt[st.Env], c05DefAt{e.Step(), st.Def})
			}
		})
		defer e.Stop()
		if e.Failed() != "" {
			run.Inconclusive(e.Failed())
			return
		}
		f := e.Finalize()
		if e.Failed() != "" {
			run.Inconclusive(e.Failed())
			return
		}
		inForce := func(env string, step int) E1SamplerDef {
			ds := defsAt[env]
			cur := ds[0].def
			for _, d := range ds[1:] {
				if d.step < step { // the reload completed (quiesced) in a step before the decision step
					cur = d.def
				}
			}
			return cur
		}
		lastStep := e.Step()
		dryAt := e.DryRunAt
		if len(f.BufferLeft) > 0 && dryAt(lastStep) {
			run.Violation("C05/trace-still-buffered-after-bounded-progress", fmt.Sprintf("%d trace(s) still undecided after TraceTimeout+SendDelay+backlog ticks", len(f.BufferLeft)),
				map[string]any{"config": h.Cfg.describe(), "buffered": f.BufferLeft[:min(5, len(f.BufferLeft))], "ops": e.Ops()})
		}
		lateOnDropped, wouldKeep, wouldDrop, predicted, afterSwitchOn, lateAcrossSwitch := 0, 0, 0, 0, 0, 0
		for _, id := range f.Order {
			tr := f.Traces[id]
			if len(tr.Accepted) == 0 {
				continue
			}
			pl := planOf[id]
			wt := func(def string, exp *bool) c05Witness {
				return c05Witness{Config: h.Cfg.describe(), Trace: id, Sampler: def, Expected: exp, Final: tr.Final, Accepted: tr.Accepted, Forward: tr.Forwarded, Ops: e.Ops()}
			}
			stressTouched := false
			for _, a := range tr.Accepted {
				if a.Stressed {
					stressTouched = true
				}
			}
			first := tr.FirstForwardStep()
			// decision step of the sampler path = first forwarded event of a non-stress span
			decisionStep := -1
			for _, a := range tr.Accepted {
				if a.Stressed {
					continue
				}
				for _, ev := range tr.Forwarded[a.Span.ID] {
					if decisionStep < 0 || ev.Step < decisionStep {
						decisionStep = ev.Step
					}
				}
			}
			var values []bool
			for _, a := range tr.Accepted {
				evs := tr.Forwarded[a.Span.ID]
				late := first >= 0 && a.Step > first
				cls := "buffered-at-decision"
				if late {
					cls = "late-span"
				}
				if a.Stressed {
					cls = "stress-path"
				}
				if len(evs) == 0 {
					if a.Stressed && !a.Kept {
						run.Count("stress_dropped_spans", 1)
						continue
					}
					// A span must have been forwarded if DryRun was on whenever it can have been handled: either on
					// from its hand-over to the end of the history (it was decided, or arrived late, under dry run), or it
					// is a late span (a sibling was already forwarded, so the trace was decided) arriving under dry run.
					// A trace dropped while DryRun was off is not resurrected; that is left open.
					if !(e.DryRunOnThroughout(a.Step, lastStep) || (late && dryAt(a.Step))) {
						run.Count("spans_not_forwarded_permitted_dry_run_was_off", 1)
						continue
					}
					run.Violation("C05/span-not-forwarded/"+cls, fmt.Sprintf("span %s was accepted with DryRun on and never reached the upstream transmission", a.Span.ID), wt("", nil))
					continue
				}
				if len(evs) > 1 {
					run.Violation("C05/span-forwarded-twice/"+cls, fmt.Sprintf("span %s reached the upstream transmission %d times", a.Span.ID, len(evs)), wt("", nil))
				}
				if a.Stressed {
					continue
				}
				ev := evs[0]
				if !dryAt(ev.Step) {
					run.Count("spans_forwarded_while_dry_run_off", 1)
					continue // forwarded as a normally kept span; nothing of C05 applies
				}
				afterSwitchOn++
				if late && !dryAt(first) {
					lateAcrossSwitch++ // trace decided while DryRun was off, this late span forwarded while it is on
				}
				if max(ev.SampleRate, 1) != max(a.Span.Rate, 1) {
					run.Violation("C05/sample-rate-not-the-clients/"+cls, fmt.Sprintf("span %s: client sample rate %d, forwarded with %d in dry run", a.Span.ID, a.Span.Rate, ev.SampleRate), wt("", nil))
				}
				v, ok := ev.Fields[c05DryField].(bool)
				if !ok {
					run.Violation("C05/dryrun-kept-marker-missing/"+cls, fmt.Sprintf("span %s forwarded in dry run without a boolean %s (got %v)", a.Span.ID, c05DryField, ev.Fields[c05DryField]), wt("", nil))
					continue
				}
				values = append(values, v)
				if late && !v {
					lateOnDropped++
				}
			}
			if len(values) == 0 {
				continue
			}
			same := true
			for _, v := range values[1:] {
				if v != values[0] {
					same = false
				}
			}
			if values[0] {
				wouldKeep++
			} else {
				wouldDrop++
			}
			if stressTouched {
				continue
			}
			if !same {
				run.Violation("C05/dryrun-kept-differs-between-spans-of-one-trace", "spans of one trace carry different would-be decisions", wt("", nil))
				continue
			}
			if tr.Final.Found && tr.Final.Kept != values[0] {
				run.Violation("C05/dryrun-kept-differs-from-recorded-decision", fmt.Sprintf("spans say kept=%v, the decision cache says kept=%v", values[0], tr.Final.Kept), wt("", nil))
			}
			def := inForce(pl.Env, decisionStep)
			if exp, known := def.Predict(id, pl.Keep); known {
				predicted++
				if exp != values[0] {
					e2 := exp
					cls := "rules-sampler"
					if strings.HasPrefix(def.Kind, "det") {
						cls = "deterministic-sampler"
					}
					run.Violation("C05/dryrun-kept-differs-from-sampler-decision/"+cls, fmt.Sprintf("sampler %s decides keep=%v for this trace, spans carry %s=%v", def.Kind, exp, c05DryField, values[0]), wt(def.Kind, &e2))
				}
			}
		}
		if len(f.Unknown) > 0 {
			run.Violation("C05/unknown-event-at-transmission", "an event without a handed-over verif.id reached the transmission", map[string]any{"events": f.Unknown[:min(3, len(f.Unknown))], "ops": e.Ops()})
		}
		sig, late, _, _ := h.Abstract(f)
		if p.ToggleDryRun {
			toggles := 0
			for _, st := range h.Steps {
				if st.Op == "reload-dryrun" {
					toggles++
				}
			}
			if toggles > 0 && wouldDrop > 0 && wouldKeep > 0 {
				run.Nontrivial(fmt.Sprintf("%s %s start%v t%d x%d", label, sig, h.Cfg.DryRun, min(toggles, 4), min(lateAcrossSwitch, 3)))
			}
			run.Count("dry_run_toggles", int64(toggles))
			run.Count("late_spans_forwarded_dry_of_traces_decided_while_off", int64(lateAcrossSwitch))
		} else if label == "stalled" {
			if wouldDrop > 0 && wouldKeep > 0 {
				run.Nontrivial(fmt.Sprintf("stalled %s late%d", sig, min(lateOnDropped, 3)))
			}
		} else if lateOnDropped > 0 && wouldKeep > 0 {
			run.Nontrivial(fmt.Sprintf("%s p%v s%v", sig, p.PredictableOnly, p.StressSpans))
		}
		_ = afterSwitchOn
		run.Count("traces_would_keep", int64(wouldKeep))
		run.Count("traces_would_drop", int64(wouldDrop))
		run.Count("traces_with_predicted_decision", int64(predicted))
		run.Count("late_spans", int64(late))
		run.Count("late_spans_on_would_be_dropped", int64(lateOnDropped))
		run.Count("events_forwarded", int64(e.EventCount()))
		run.Count("steps", int64(e.Step()))
		if i < 2 {
			run.Sample(map[string]any{"label": label, "config": h.Cfg.describe(), "ops": len(e.Ops()), "traces": len(f.Order), "would_keep": wouldKeep, "would_drop": wouldDrop, "late_on_dropped": lateOnDropped})
		}
	}
	run.Cases("dry-run", run.N(150, 1500), func(i int, rng *verifkit.Rand) {
		one("dry-run", i, rng, E1Profile{DryRun: true, MaxSteps: steps, PredictableOnly: rng.Chance(0.67), StressSpans: rng.Chance(0.33)})
	})
	// DryRun switched by live reloads (Debugging.DryRun is reloadable): off→on and on→off at quiescent points,
	// sampler definitions fixed. Every clause is applied per span with the DryRun value in force in the step in
	// which the span was FORWARDED.
	run.Cases("dry-run-toggled", run.N(80, 800), func(i int, rng *verifkit.Rand) {
		one("toggled", i, rng, E1Profile{DryRun: rng.Chance(0.4), ToggleDryRun: true, MaxSteps: steps, PredictableOnly: rng.Chance(0.67)})
	})
	// would-be-kept and would-be-dropped traces are decided while the outgoing queue (100 000 slots) is completely
	// full and the upstream takes nothing; under dry run every one of their spans must still come out, marked
	run.Cases("stalled-upstream", run.N(4, 40), func(i int, rng *verifkit.Rand) {
		one("stalled", i, rng, E1Profile{DryRun: true, PredictableOnly: true})
	})
}
