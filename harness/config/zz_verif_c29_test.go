//go:build verif

package config

import (
	"fmt"
	"net/http"
	"net/http/httptest"
	"os"
	"path/filepath"
	"reflect"
	"regexp"
	"sort"
	"strings"
	"sync"
	"testing"

	"github.com/honeycombio/refinery/internal/verifkit"
	"gopkg.in/yaml.v3"
)

// C29: settings resolve with documented precedence and env expansion.
//
// Reflection enumerates every leaf setting of the loaded config struct. For every
// setting the real loader (NewCmdEnvOptions + NewConfig over temp files, with the
// process environment set for the case and restored afterwards) is run on generated
// source combinations and the effective value is compared with the rule of the
// property text:
//     flag > environment variable > later file > earlier file > documented default,
//     ${VAR} in string-valued settings replaced by the variable's value, unchanged
//     when unset; what validation accepts is what is used.
//
// ---- adapters: the only uses of unexported identifiers -------------------------------

// c29loaded returns the loaded main config struct of a Config built by NewConfig.
func c29loaded(c Config) reflect.Value {
	return reflect.ValueOf(c.(*fileConfig).mainConfig).Elem()
}

func c29contentsType() reflect.Type { return reflect.TypeOf(configContents{}) }

// c29metaYAML returns the raw documentation source (config.md is generated from it).
func c29metaYAML() ([]byte, error) { return metadataFS.ReadFile("metadata/configMeta.yaml") }

// ---- enumeration of settings ---------------------------------------------------------

type c29field struct {
	Path   string // Group.Field, yaml names
	Group  string
	Name   string
	Index  []int
	Type   reflect.Type
	DefTag string
	CmdEnv []string // names of CmdEnv fields, in tag order
	Meta   *Field
	Dead   bool // field or its group carries lastversion (deprecated) in the metadata
}

func c29yamlName(f reflect.StructField) string {
	return strings.Split(f.Tag.Get("yaml"), ",")[0]
}

func c29fields(t *testing.T) []c29field {
	meta, err := LoadConfigMetadata()
	if err != nil {
		t.Fatalf("c29: metadata: %v", err)
	}
	var out []c29field
	ct := c29contentsType()
	for gi := 0; gi < ct.NumField(); gi++ {
		g := ct.Field(gi)
		gname := c29yamlName(g)
		if g.Type.Kind() != reflect.Struct {
			t.Fatalf("c29: top-level field %s is not a group", g.Name)
		}
		gm := meta.GetGroup(gname)
		for fi := 0; fi < g.Type.NumField(); fi++ {
			sf := g.Type.Field(fi)
			name := c29yamlName(sf)
			if name == "-" || name == "" {
				continue
			}
			f := c29field{Path: gname + "." + name, Group: gname, Name: name, Index: []int{gi, fi}, Type: sf.Type, DefTag: sf.Tag.Get("default")}
			if tag := sf.Tag.Get("cmdenv"); tag != "" {
				f.CmdEnv = strings.Split(tag, ",")
			}
			f.Meta = meta.GetField(f.Path)
			if (f.Meta != nil && f.Meta.LastVersion != "") || (gm != nil && gm.LastVersion != "") {
				f.Dead = true
			}
			out = append(out, f)
		}
	}
	return out
}

// c29cmd returns the flag name, environment variable and list delimiter of a CmdEnv field.
func c29cmd(name string) (long, env, delim string) {
	sf, ok := reflect.TypeOf(CmdEnv{}).FieldByName(name)
	if !ok {
		return "", "", ""
	}
	return sf.Tag.Get("long"), sf.Tag.Get("env"), sf.Tag.Get("env-delim")
}

func (f c29field) stringValued() bool {
	switch {
	case f.Type.Kind() == reflect.String:
		return true
	case f.Type == reflect.TypeOf([]string{}), f.Type == reflect.TypeOf(map[string]string{}):
		return true
	}
	return false
}

func (f c29field) hasValidation(typ string, arg string) bool {
	if f.Meta == nil {
		return false
	}
	for _, v := range f.Meta.Validations {
		if v.Type == typ && (arg == "" || fmt.Sprint(v.Arg) == arg) {
			return true
		}
	}
	return false
}

func (f c29field) elementType() string {
	if f.Meta == nil {
		return ""
	}
	for _, v := range f.Meta.Validations {
		if v.Type == "elementType" {
			return fmt.Sprint(v.Arg)
		}
	}
	return ""
}

// ---- value domains ---------------------------------------------------------------------

type c29val struct {
	YAML string // text after "Field: "
	CLI  string // text for a flag argument / an environment variable ("" = not expressible)
}

// c29strForm says how a string setting is constrained, so generated values stay valid.
func (f c29field) strForm() string {
	mt := ""
	if f.Meta != nil {
		mt = f.Meta.Type
	}
	switch {
	case f.Meta != nil && len(f.Meta.Choices) > 0:
		return "choice"
	case mt == "hostport":
		return "hostport"
	case mt == "url":
		return "url"
	case f.hasValidation("format", "apikey"), f.hasValidation("format", "apikeyOrBlank"):
		return "apikey"
	case f.hasValidation("format", "version"):
		return "version"
	case f.hasValidation("format", "alphanumeric"):
		return "alnum"
	case f.Path == "OpAMP.Endpoint":
		return "wss"
	}
	return "free"
}

// c29nth is the n-th valid value of the setting's domain (n >= 0); salt varies with the
// seed. ok=false when the domain has no n-th value.
func c29nth(f c29field, n, salt int) (c29val, bool) {
	k := salt*8 + n
	switch f.Type.Kind() {
	case reflect.Bool:
		if n > 1 {
			return c29val{}, false
		}
		s := []string{"true", "false"}[n]
		return c29val{s, s}, true
	case reflect.Ptr: // *DefaultTrue
		if n > 1 {
			return c29val{}, false
		}
		s := []string{"false", "true"}[n]
		return c29val{s, s}, true
	case reflect.String:
		var s string
		switch f.strForm() {
		case "choice":
			if n >= len(f.Meta.Choices) {
				return c29val{}, false
			}
			s = f.Meta.Choices[(n+salt)%len(f.Meta.Choices)]
		case "hostport":
			s = fmt.Sprintf("127.0.0.1:%d", 20000+k)
		case "url":
			s = fmt.Sprintf("https://h%d.example.com", k)
		case "apikey":
			s = fmt.Sprintf("verifkey%012d", k)
		case "version":
			s = fmt.Sprintf("v2.%d", k)
		case "alnum":
			s = fmt.Sprintf("an%d", k)
		case "wss":
			s = fmt.Sprintf("wss://h%d.example.com/v1/opamp", k)
		default:
			s = fmt.Sprintf("s%d-%s", k, f.Name)
		}
		return c29val{fmt.Sprintf("%q", s), s}, true
	}
	switch f.Type {
	case reflect.TypeOf([]string{}):
		var a, b string
		switch f.elementType() {
		case "hostport":
			a, b = fmt.Sprintf("127.0.0.1:%d", 21000+k), fmt.Sprintf("127.0.0.2:%d", 21000+k)
		case "url":
			a, b = fmt.Sprintf("http://h%da.example.com:8081", k), fmt.Sprintf("http://h%db.example.com:8081", k)
		default:
			a, b = fmt.Sprintf("e%da", k), fmt.Sprintf("e%db", k)
		}
		return c29val{fmt.Sprintf("[%q, %q]", a, b), a + "," + b}, true
	case reflect.TypeOf(map[string]string{}):
		v := fmt.Sprintf("m%d", k)
		return c29val{fmt.Sprintf("{verif: %q}", v), "verif:" + v}, true
	case reflect.TypeOf(Duration(0)):
		s := fmt.Sprintf("%dm", 16+k)
		return c29val{s, s}, true
	case reflect.TypeOf(MemorySize(0)):
		s := fmt.Sprintf("%dMB", 16+k)
		return c29val{s, s}, true
	case reflect.TypeOf(Level(0)):
		ch := []string{"debug", "info", "error", "warn"}
		if n >= len(ch) {
			return c29val{}, false
		}
		return c29val{ch[n], ch[n]}, true
	}
	switch f.Type.Kind() {
	case reflect.Int, reflect.Uint, reflect.Uint64, reflect.Int64:
		var v int
		switch {
		case f.Path == "General.ConfigurationVersion":
			if n > 0 {
				return c29val{}, false
			}
			v = 2
		case f.Meta != nil && f.Meta.Type == "percentage":
			v = 20 + k%70
		case f.hasValidation("maximum", "15"):
			if n > 14 {
				return c29val{}, false
			}
			v = 1 + (n+salt)%15
		case f.Name == "WorkerCount":
			v = 2 + k%50
		default:
			v = 1000 + k
		}
		s := fmt.Sprint(v)
		return c29val{s, s}, true
	}
	return c29val{}, false
}

// c29decode turns the YAML text of a value into a value of the setting's type.
func c29decode(f c29field, yamlText string) (reflect.Value, error) {
	p := reflect.New(f.Type)
	if err := yaml.Unmarshal([]byte(yamlText), p.Interface()); err != nil {
		return reflect.Value{}, err
	}
	return p.Elem(), nil
}

func c29render(v reflect.Value) string {
	var b strings.Builder
	c29dump(&b, v)
	return b.String()
}

func c29dump(b *strings.Builder, v reflect.Value) {
	switch v.Kind() {
	case reflect.Ptr, reflect.Interface:
		if v.IsNil() {
			b.WriteString("nil")
			return
		}
		c29dump(b, v.Elem())
	case reflect.Map:
		keys := v.MapKeys()
		sort.Slice(keys, func(i, j int) bool { return keys[i].String() < keys[j].String() })
		b.WriteString("{")
		for i, k := range keys {
			if i > 0 {
				b.WriteString(", ")
			}
			fmt.Fprintf(b, "%q: ", k.String())
			c29dump(b, v.MapIndex(k))
		}
		b.WriteString("}")
	case reflect.Slice:
		b.WriteString("[")
		for i := 0; i < v.Len(); i++ {
			if i > 0 {
				b.WriteString(", ")
			}
			c29dump(b, v.Index(i))
		}
		b.WriteString("]")
	case reflect.String:
		fmt.Fprintf(b, "%q", v.String())
	case reflect.Bool:
		fmt.Fprintf(b, "%v", v.Bool())
	case reflect.Int, reflect.Int8, reflect.Int16, reflect.Int32, reflect.Int64:
		fmt.Fprintf(b, "%d", v.Int())
	case reflect.Uint, reflect.Uint8, reflect.Uint16, reflect.Uint32, reflect.Uint64:
		fmt.Fprintf(b, "%d", v.Uint())
	case reflect.Struct:
		b.WriteString("{")
		for i := 0; i < v.NumField(); i++ {
			if i > 0 {
				b.WriteString(", ")
			}
			b.WriteString(v.Type().Field(i).Name + ": ")
			c29dump(b, v.Field(i))
		}
		b.WriteString("}")
	default:
		fmt.Fprintf(b, "<%s>", v.Kind())
	}
}

// ---- one load of the real configuration machinery --------------------------------------

type c29load struct {
	Files []string          `json:"files"`                     // contents, in --config order
	URL   []bool            `json:"served_from_url,omitempty"` // URL[i]: location i is an http:// URL instead of a local file
	Args  []string          `json:"flags,omitempty"`           // extra command-line arguments
	Env   map[string]string `json:"env,omitempty"`             // variables set for the load ("" is set-but-empty)
}

type c29result struct {
	cfg     Config
	err     error // fatal error or warnings
	flagErr error
}

const c29rules = "RulesVersion: 2\nSamplers:\n  __default__:\n    DeterministicSampler:\n      SampleRate: 1\n"

var c29dirN int

// one HTTP server for the URL-kind config locations of the whole test
var (
	c29srvOnce sync.Once
	c29srv     *httptest.Server
	c29srvMu   sync.Mutex
	c29srvBody = map[string]string{}
)

func c29serve(path, content string) string {
	c29srvOnce.Do(func() {
		c29srv = httptest.NewServer(http.HandlerFunc(func(w http.ResponseWriter, r *http.Request) {
			c29srvMu.Lock()
			body, ok := c29srvBody[r.URL.Path]
			c29srvMu.Unlock()
			if !ok {
				http.NotFound(w, r)
				return
			}
			w.Header().Set("Content-Type", "application/yaml")
			w.Write([]byte(body))
		}))
	})
	c29srvMu.Lock()
	c29srvBody[path] = content
	c29srvMu.Unlock()
	return c29srv.URL + path
}

func c29run(t *testing.T, ld c29load) c29result {
	c29dirN++
	dir := filepath.Join(t.TempDir(), fmt.Sprintf("l%d", c29dirN))
	if err := os.MkdirAll(dir, 0o755); err != nil {
		t.Fatal(err)
	}
	defer os.RemoveAll(dir)
	var args []string
	for i, content := range ld.Files {
		if i < len(ld.URL) && ld.URL[i] {
			args = append(args, "--config", c29serve(fmt.Sprintf("/l%d/config%d.yaml", c29dirN, i), content))
			continue
		}
		p := filepath.Join(dir, fmt.Sprintf("config%d.yaml", i))
		if err := os.WriteFile(p, []byte(content), 0o644); err != nil {
			t.Fatal(err)
		}
		args = append(args, "--config", p)
	}
	rp := filepath.Join(dir, "rules.yaml")
	if err := os.WriteFile(rp, []byte(c29rules), 0o644); err != nil {
		t.Fatal(err)
	}
	args = append(args, "--rules_config", rp)
	args = append(args, ld.Args...)

	// the environment is process-global: set for this load only, restore afterwards
	type saved struct {
		val string
		had bool
	}
	old := map[string]saved{}
	for k, v := range ld.Env {
		o, had := os.LookupEnv(k)
		old[k] = saved{o, had}
		os.Setenv(k, v)
	}
	defer func() {
		for k, s := range old {
			if s.had {
				os.Setenv(k, s.val)
			} else {
				os.Unsetenv(k)
			}
		}
	}()

	opts, err := NewCmdEnvOptions(args)
	if err != nil {
		return c29result{flagErr: err}
	}
	c, err := NewConfig(opts)
	if c == nil {
		return c29result{err: err}
	}
	return c29result{cfg: c, err: err}
}

func (r c29result) accepted() bool { return r.cfg != nil }

func (r c29result) why() string {
	switch {
	case r.flagErr != nil:
		return "flag parsing failed: " + r.flagErr.Error()
	case r.err != nil:
		s := r.err.Error()
		if len(s) > 400 {
			s = s[:400] + "…"
		}
		return s
	}
	return ""
}

func c29effective(r c29result, f c29field) reflect.Value {
	return c29loaded(r.cfg).FieldByIndex(f.Index)
}

const c29base = "General:\n  ConfigurationVersion: 2\n"

func c29fileWith(f c29field, yamlValue string, withBase bool) string {
	s := ""
	if withBase {
		s = c29base
	}
	if f.Path == "General.ConfigurationVersion" && withBase {
		return "General:\n  ConfigurationVersion: " + yamlValue + "\n"
	}
	if f.Group == "General" && withBase {
		return s + "  " + f.Name + ": " + yamlValue + "\n"
	}
	return s + f.Group + ":\n  " + f.Name + ": " + yamlValue + "\n"
}

// ---- the check -------------------------------------------------------------------------

type c29src int

const (
	c29Flag c29src = iota
	c29Env
	c29File2
	c29File1
	c29nSrc
)

var c29srcName = []string{"flag", "env", "file2", "file1"}

func TestVerif_C29(t *testing.T) {
	run := verifkit.Start(t, "C29", "config")
	defer run.Finish()
	run.Rule("reflection enumerates every leaf setting of the loaded config struct; per setting: every presence combination of {flag, env} (cmdenv-tagged settings, each CmdEnv name of the tag) x {later file, earlier file} with pairwise distinct valid values drawn from the seed, expectation = first present of flag, env, later file, earlier file, documented default; explicit zero values in files; ${VAR} placements (whole, prefix/suffix, twice, inside list and map elements, in flag and env values) with VAR set / unset / set-empty for every string-valued setting; the same references in the configuration in force after Reload (unchanged-content control, same setting with another variable, another setting changed, unset variable; validate and no-validate); values that are invalid only after expansion or only through a flag/env; every flag and environment-variable name the metadata documents; config location lists mixing http:// URLs and local files in both orders (later location wins); ${VAR} at first/middle/last list positions with literal or unset-reference neighbours; non-trivial = a load in which at least two sources competed or an expansion happened; distinct = (setting, source combination/placement)")
	run.Assume("the process environment is set per load and restored; no REFINERY_* variable leaks in from outside (cleared at start)")
	run.Assume("configMeta.yaml (from which config.md is generated) is the documentation of names and defaults; deprecated groups/fields (lastversion set) are not documented settings")

	// a clean environment for the whole test, restored at the end
	for _, kv := range os.Environ() {
		k := strings.SplitN(kv, "=", 2)[0]
		if strings.HasPrefix(k, "REFINERY_") || strings.HasPrefix(k, "VERIF_C29_") {
			v := os.Getenv(k)
			os.Unsetenv(k)
			defer os.Setenv(k, v)
		}
	}

	fields := c29fields(t)
	run.Count("settings_enumerated", int64(len(fields)))
	rounds := run.N(1, 6)

	// self-check of the generators: every generated value alone in a file must be accepted,
	// otherwise the cases built from it say nothing (harness bug, not a verdict)
	for _, f := range fields {
		for n := 0; n < run.N(1, 4); n++ {
			v, ok := c29nth(f, n, 1)
			if !ok {
				break
			}
			if r := c29run(t, c29load{Files: []string{c29fileWith(f, v.YAML, true)}}); !r.accepted() {
				t.Fatalf("c29: harness generator produces a value the loader rejects: %s: %s: %s", f.Path, v.YAML, r.why())
			}
		}
	}

	c29defaults(t, run, fields)
	run.Cases("precedence", rounds*len(fields), func(i int, rng *verifkit.Rand) {
		c29precedence(t, run, rng, fields[i%len(fields)])
	})
	run.Cases("later-file-keeps-unnamed", rounds*len(fields), func(i int, rng *verifkit.Rand) {
		c29otherFieldKept(t, run, rng, fields, fields[i%len(fields)])
	})
	c29zeros(t, run, fields)
	run.Cases("expansion", rounds*len(fields), func(i int, rng *verifkit.Rand) {
		c29expansion(t, run, rng, fields[i%len(fields)], run.Thorough())
	})
	run.Cases("expansion-after-reload", rounds*len(fields), func(i int, rng *verifkit.Rand) {
		c29expansionReload(t, run, rng, fields[i%len(fields)], run.Thorough())
	})
	run.Cases("validation-vs-use", rounds*len(fields), func(i int, rng *verifkit.Rand) {
		c29invalid(t, run, rng, fields[i%len(fields)])
	})
	c29documentedNames(t, run, fields)
	mixOff := run.Rand("mixed-kinds-offset").Intn(3)
	run.Cases("mixed-location-kinds", rounds*len(fields), func(i int, rng *verifkit.Rand) {
		if !run.Thorough() && i%3 != mixOff {
			return // quick tier: a seed-chosen third of the settings
		}
		c29mixedKinds(t, run, rng, fields[i%len(fields)])
	})
	if c29srv != nil {
		defer c29srv.Close()
	}
	run.Cases("config-location", rounds*4, func(i int, rng *verifkit.Rand) { c29locations(t, run, rng, i%4) })
}

// ---- defaults: nothing but the required version is given -------------------------------

func c29defaults(t *testing.T, run *verifkit.Run, fields []c29field) {
	r := c29run(t, c29load{Files: []string{c29base}})
	if !r.accepted() {
		t.Fatalf("c29: minimal config rejected: %s", r.why())
	}
	run.Eval(1)
	for _, f := range fields {
		if f.Meta == nil || f.Meta.Default == nil || f.Dead {
			continue
		}
		b, err := yaml.Marshal(f.Meta.Default)
		if err != nil {
			continue
		}
		want, err := c29decode(f, string(b))
		if err != nil {
			run.Violation("C29/default/documented-default-not-loadable/"+f.Path,
				fmt.Sprintf("the documented default %q of %s cannot be read as a %s: %v", strings.TrimSpace(string(b)), f.Path, f.Type, err), nil)
			continue
		}
		got := c29effective(r, f)
		run.Count("defaults_compared", 1)
		if c29render(got) != c29render(want) {
			run.Violation("C29/default/effective-differs-from-documented/"+f.Path,
				fmt.Sprintf("%s: with no source present the effective value is %s, the documented default is %s", f.Path, c29render(got), c29render(want)),
				map[string]any{"setting": f.Path, "effective": c29render(got), "documented_default": c29render(want), "struct_default_tag": f.DefTag})
		}
	}
	c29getters(run, r, "defaults")
}

// c29getters: the group getters of the Config interface return the loaded values.
func c29getters(run *verifkit.Run, r c29result, where string) {
	loaded := c29loaded(r.cfg)
	cv := reflect.ValueOf(r.cfg)
	it := reflect.TypeOf((*Config)(nil)).Elem()
	for i := 0; i < it.NumMethod(); i++ {
		m := it.Method(i)
		if m.Type.NumIn() != 0 || m.Type.NumOut() != 1 || m.Type.Out(0).Kind() != reflect.Struct {
			continue
		}
		for gi := 0; gi < loaded.NumField(); gi++ {
			if loaded.Field(gi).Type() != m.Type.Out(0) {
				continue
			}
			got := cv.MethodByName(m.Name).Call(nil)[0]
			if c29render(got) != c29render(loaded.Field(gi)) {
				run.Violation("C29/getter-differs-from-loaded-value/"+m.Name,
					fmt.Sprintf("%s() = %s, loaded %s", m.Name, c29render(got), c29render(loaded.Field(gi))), map[string]any{"where": where})
			}
			run.Count("group_getters_compared", 1)
		}
	}
}

// ---- precedence --------------------------------------------------------------------------

type c29case struct {
	Setting  string            `json:"setting"`
	Sources  map[string]string `json:"sources"`
	Load     c29load           `json:"load"`
	Expected string            `json:"expected"`
	From     string            `json:"expected_from"`
	Got      string            `json:"effective"`
}

func c29precedence(t *testing.T, run *verifkit.Run, rng *verifkit.Rand, f c29field) {
	if _, ok := c29nth(f, 1, 0); !ok {
		return // single-valued setting (ConfigurationVersion)
	}
	salt := rng.Range(1, 40)
	names := f.CmdEnv
	if len(names) == 0 {
		names = []string{""}
	}
	for ni, cmdName := range names {
		long, env, _ := "", "", ""
		if cmdName != "" {
			long, env, _ = c29cmd(cmdName)
		}
		for mask := 1; mask < 1<<c29nSrc; mask++ {
			present := func(s c29src) bool { return mask&(1<<s) != 0 }
			if cmdName == "" && (present(c29Flag) || present(c29Env)) {
				continue
			}
			if ni > 0 && !present(c29Flag) && !present(c29Env) {
				continue // file-only combinations were done with the first name
			}
			if (present(c29Flag) && long == "") || (present(c29Env) && env == "") {
				continue
			}
			// the winner by the rule of the property text
			var winner c29src = -1
			for s := c29Flag; s < c29nSrc; s++ {
				if present(s) {
					winner = s
					break
				}
			}
			// distinct values: the winner gets value 0 of the domain, the others 1, 2, ...
			// (small domains: the others share value 1, still different from the winner)
			vals := map[c29src]c29val{}
			next := 1
			for s := c29Flag; s < c29nSrc; s++ {
				if !present(s) {
					continue
				}
				if s == winner {
					vals[s], _ = c29nth(f, 0, salt)
					continue
				}
				v, ok := c29nth(f, next, salt)
				if !ok {
					v, _ = c29nth(f, 1, salt)
				} else {
					next++
				}
				vals[s] = v
			}
			ld := c29load{Env: map[string]string{}}
			srcs := map[string]string{}
			switch {
			case present(c29File1) && present(c29File2):
				ld.Files = []string{c29fileWith(f, vals[c29File1].YAML, true), c29fileWith(f, vals[c29File2].YAML, false)}
			case present(c29File1):
				ld.Files = []string{c29fileWith(f, vals[c29File1].YAML, true)}
			case present(c29File2):
				ld.Files = []string{c29base, c29fileWith(f, vals[c29File2].YAML, false)}
			default:
				ld.Files = []string{c29base}
			}
			if present(c29Flag) {
				ld.Args = append(ld.Args, "--"+long, vals[c29Flag].CLI)
			}
			if present(c29Env) {
				ld.Env[env] = vals[c29Env].CLI
			}
			for s, v := range vals {
				srcs[c29srcName[s]] = v.YAML
			}
			want, err := c29decode(f, vals[winner].YAML)
			if err != nil {
				t.Fatalf("c29: cannot decode own value %s for %s: %v", vals[winner].YAML, f.Path, err)
			}
			r := c29run(t, ld)
			run.Eval(1)
			run.Count("loads", 1)
			combo := ""
			for s := c29Flag; s < c29nSrc; s++ {
				if present(s) {
					combo += c29srcName[s] + "+"
				}
			}
			combo = strings.TrimSuffix(combo, "+")
			if cmdName != "" {
				combo += "(" + cmdName + ")"
			}
			cs := c29case{Setting: f.Path, Sources: srcs, Load: ld, Expected: c29render(want), From: c29srcName[winner]}
			if !r.accepted() {
				run.Violation("C29/precedence/valid-sources-rejected/"+f.Path+"/"+combo,
					fmt.Sprintf("%s given by %s with values that are each valid alone is rejected: %s", f.Path, combo, r.why()), cs)
				continue
			}
			got := c29effective(r, f)
			cs.Got = c29render(got)
			if bitsSet(mask) > 1 {
				run.Nontrivial("precedence/" + f.Path + "/" + combo)
			}
			if cs.Got != cs.Expected {
				// which source did win?
				from := "none of the sources"
				for s, v := range vals {
					if d, err := c29decode(f, v.YAML); err == nil && c29render(d) == cs.Got {
						from = c29srcName[s]
					}
				}
				if from == "none of the sources" && got.Kind() == reflect.Slice && got.Len() > 0 && got.Len() < want.Len() {
					part := true
					for i := 0; i < got.Len(); i++ {
						part = part && c29render(got.Index(i)) == c29render(want.Index(i))
					}
					if part {
						from = "only the first elements of " + c29srcName[winner]
					}
				}
				wname := c29srcName[winner]
				if cmdName != "" && winner <= c29Env {
					wname += "(" + cmdName + ")"
				}
				run.Violation("C29/precedence/"+f.Path+"/expected-"+wname+"-got-"+strings.ReplaceAll(from, " ", "-"),
					fmt.Sprintf("%s with sources %s: effective %s (from %s), expected %s (from %s)", f.Path, combo, cs.Got, from, cs.Expected, cs.From), cs)
			}
			if mask == 1<<c29nSrc-1 || rng.Chance(0.1) {
				c29getters(run, r, f.Path+"/"+combo)
				run.Sample(cs)
			}
		}
	}

}

func bitsSet(m int) int {
	n := 0
	for ; m != 0; m &= m - 1 {
		n++
	}
	return n
}

// a later file that names another setting of the same group must not disturb this one
func c29otherFieldKept(t *testing.T, run *verifkit.Run, rng *verifkit.Rand, fields []c29field, f c29field) {
	var sib []c29field
	for _, o := range fields {
		if o.Group == f.Group && o.Path != f.Path && !o.Dead && o.Path != "General.ConfigurationVersion" {
			sib = append(sib, o)
		}
	}
	if len(sib) == 0 || f.Dead || f.Path == "General.ConfigurationVersion" {
		return
	}
	o := sib[rng.Intn(len(sib))]
	salt := rng.Range(1, 40)
	v, _ := c29nth(f, 0, salt)
	ov, _ := c29nth(o, 0, salt)
	ld := c29load{Files: []string{c29fileWith(f, v.YAML, true), c29fileWith(o, ov.YAML, false)}}
	r := c29run(t, ld)
	run.Eval(1)
	if !r.accepted() {
		run.Count("later_file_other_setting_rejected", 1)
		return
	}
	run.Nontrivial("sibling/" + f.Path + "/" + o.Path)
	want, _ := c29decode(f, v.YAML)
	owant, _ := c29decode(o, ov.YAML)
	if got := c29render(c29effective(r, f)); got != c29render(want) {
		run.Violation("C29/files/earlier-file-value-lost-when-later-file-names-sibling/"+f.Group,
			fmt.Sprintf("%s from the first file is %s instead of %s after a second file set %s", f.Path, got, c29render(want), o.Path), ld)
	}
	if got := c29render(c29effective(r, o)); got != c29render(owant) {
		run.Violation("C29/files/later-file-value-not-applied/"+o.Path,
			fmt.Sprintf("%s from the second file is %s instead of %s", o.Path, got, c29render(owant)), ld)
	}
}

// ---- location lists that mix URLs and local files -----------------------------------------

// c29mixedKinds: 2-3 config locations, some http:// URLs and some local files, in a
// PRNG-chosen order that always contains both kinds; every location sets the setting to
// its own value. The later location wins, whatever its kind.
func c29mixedKinds(t *testing.T, run *verifkit.Run, rng *verifkit.Rand, f c29field) {
	if _, ok := c29nth(f, 1, 0); !ok || f.Dead {
		return // single-valued or deprecated setting
	}
	salt := rng.Range(1, 40)
	shapes := [][]bool{{true, false}, {false, true}, {true, false, true}, {false, true, false}, {true, true, false}, {false, false, true}, {true, false, false}, {false, true, true}}
	// quick: the two 2-location orders plus one 3-location shape per setting
	pick := [][]bool{shapes[0], shapes[1], shapes[2+rng.Intn(len(shapes)-2)]}
	if run.Thorough() {
		pick = shapes
	}
	for _, shape := range pick {
		ld := c29load{URL: shape}
		var vals []c29val
		for i := range shape {
			// the last location gets value 0, earlier ones other values (small domains: value 1)
			n := len(shape) - 1 - i
			v, ok := c29nth(f, n, salt)
			if !ok {
				v, _ = c29nth(f, 1, salt)
			}
			vals = append(vals, v)
			ld.Files = append(ld.Files, c29fileWith(f, v.YAML, i == 0))
		}
		kinds := ""
		for _, u := range shape {
			if u {
				kinds += "url,"
			} else {
				kinds += "file,"
			}
		}
		kinds = strings.TrimSuffix(kinds, ",")
		r := c29run(t, ld)
		run.Eval(1)
		run.Count("mixed_location_kind_loads", 1)
		want, _ := c29decode(f, vals[len(vals)-1].YAML)
		cs := c29case{Setting: f.Path, Load: ld, Expected: c29render(want), From: "last location (" + kinds + ")"}
		if !r.accepted() {
			run.Violation("C29/files/mixed-location-kinds-rejected/"+kinds,
				fmt.Sprintf("%s given by locations [%s] with values that are each valid alone is rejected: %s", f.Path, kinds, r.why()), cs)
			continue
		}
		run.Nontrivial("mixed-kinds/" + f.Path + "/" + kinds)
		got := c29render(c29effective(r, f))
		cs.Got = got
		if got != cs.Expected {
			from := "none of the locations"
			for i, v := range vals {
				if d, err := c29decode(f, v.YAML); err == nil && c29render(d) == got {
					from = fmt.Sprintf("location %d of %d", i+1, len(vals))
				}
			}
			lastKind := "file"
			if shape[len(shape)-1] {
				lastKind = "url"
			}
			run.Violation("C29/files/later-"+lastKind+"-location-loses-to-earlier-location-of-other-kind",
				fmt.Sprintf("%s with config locations [%s]: effective %s (from %s), expected the last location's %s", f.Path, kinds, got, from, cs.Expected), cs)
		}
	}
}

// ---- explicit zero values ----------------------------------------------------------------

func c29zeros(t *testing.T, run *verifkit.Run, fields []c29field) {
	type hit struct {
		Setting, Zero, Effective, How string
	}
	var hits []hit
	for _, f := range fields {
		if f.Dead {
			continue
		}
		var zero string
		switch {
		case f.Type.Kind() == reflect.Ptr:
			continue // pointer settings can tell "absent" from "false"; covered by precedence
		case f.Type.Kind() == reflect.Bool:
			zero = "false"
		case f.Type.Kind() == reflect.String:
			zero = `""`
		case f.Type == reflect.TypeOf([]string{}):
			zero = "[]"
		case f.Type == reflect.TypeOf(map[string]string{}):
			continue // an empty map is every map setting's default, and files merge per key
		case f.Type == reflect.TypeOf(Duration(0)):
			zero = "0s"
		case f.Type == reflect.TypeOf(Level(0)):
			continue
		default:
			zero = "0"
		}
		want, err := c29decode(f, zero)
		if err != nil {
			continue
		}
		nz, _ := c29nth(f, 0, 3)
		for _, how := range []string{"single file", "later file after a non-zero earlier file"} {
			ld := c29load{Files: []string{c29fileWith(f, zero, true)}}
			if how != "single file" {
				ld.Files = []string{c29fileWith(f, nz.YAML, true), c29fileWith(f, zero, false)}
			}
			r := c29run(t, ld)
			run.Eval(1)
			run.Count("explicit_zero_loads", 1)
			if !r.accepted() {
				run.Count("explicit_zero_rejected_by_validation", 1)
				continue
			}
			got := c29render(c29effective(r, f))
			if got == c29render(want) {
				run.Count("explicit_zero_kept", 1)
				continue
			}
			run.Nontrivial("zero/" + f.Path + "/" + how)
			hits = append(hits, hit{f.Path, zero, got, how})
		}
	}
	if len(hits) > 0 {
		var zeros, empties []string
		seen := map[string]bool{}
		for _, h := range hits {
			if seen[h.Setting] {
				continue
			}
			seen[h.Setting] = true
			if h.Zero == `""` {
				empties = append(empties, h.Setting)
			} else {
				zeros = append(zeros, h.Setting)
			}
		}
		run.Violation("C29/explicit-zero-replaced-by-default",
			fmt.Sprintf("an explicit zero value in a config file (0, 0s, false, []) passes validation but the effective value is the default, not the file value, for %d settings: %s; the same happens to an explicit empty string for %d settings: %s",
				len(zeros), strings.Join(zeros, ", "), len(empties), strings.Join(empties, ", ")),
			map[string]any{"settings": hits})
	}
}

// ---- ${VAR} expansion ----------------------------------------------------------------------

type c29exp struct {
	Setting   string  `json:"setting"`
	Placement string  `json:"placement"`
	Variable  string  `json:"variable_state"`
	Load      c29load `json:"load"`
	Expected  string  `json:"expected"`
	Got       string  `json:"effective"`
}

// c29holes returns templates for the setting's value: each has %s where the reference or
// its replacement goes, plus the value the variable must have for the result to be valid.
type c29hole struct {
	tpl string // %s marks where the reference (or its replacement) goes
	val string // value of the variable that makes the expanded text valid
}

func c29holes(form string, choices []string, k int) []c29hole {
	x := fmt.Sprintf("x%d", k)
	switch form {
	case "choice":
		return []c29hole{{"%s", choices[k%len(choices)]}}
	case "hostport":
		return []c29hole{{"127.0.0.1:%s", fmt.Sprint(22000 + k)}, {"%s", fmt.Sprintf("127.0.0.1:%d", 22000+k)}, {"%s:%s", fmt.Sprint(22000 + k)}}
	case "url":
		return []c29hole{{"https://h%s.example.com", x}, {"https://example.com/%s", x}, {"%s", "https://" + x + ".example.com"}}
	case "peerurl":
		return []c29hole{{"http://h%s.example.com:8081", x}, {"%s", "http://" + x + ".example.com:8081"}}
	case "apikey":
		return []c29hole{{"%s", fmt.Sprintf("verifvar%012d", k)}, {"verifvar%s", fmt.Sprintf("%012d", k)}}
	case "version":
		return []c29hole{{"v2.%s", fmt.Sprint(k)}, {"%s", fmt.Sprintf("v2.%d", k)}}
	case "alnum":
		return []c29hole{{"pre%s", x}, {"%s", x}}
	case "wss":
		return []c29hole{{"wss://h%s.example.com/v1/opamp", x}, {"%s", "wss://" + x + ".example.com/v1/opamp"}}
	}
	return []c29hole{{"pre-%s-post", x}, {"%s", x}, {"%s%s", x}, {"a%sb%sc", x}}
}

func c29expansion(t *testing.T, run *verifkit.Run, rng *verifkit.Rand, f c29field, all bool) {
	if !f.stringValued() {
		return
	}
	k := rng.Range(1, 9000)
	varName := fmt.Sprintf("VERIF_C29_%s_%d", strings.ToUpper(rng.Hex(4)), k)
	ref := "${" + varName + "}"
	var choices []string
	if f.Meta != nil {
		choices = f.Meta.Choices
	}
	holes := c29holes(f.strForm(), choices, k)
	elemForm, plain := "", "plain"
	if f.Type.Kind() != reflect.String {
		// list / map elements
		switch f.elementType() {
		case "hostport":
			holes, plain = c29holes("hostport", nil, k), "127.0.0.9:9"
		case "url":
			holes, plain = c29holes("peerurl", nil, k), "http://plain.example.com:8081"
		default:
			holes = c29holes("free", nil, k)
		}
		elemForm = "element"
	}
	if !all {
		// quick tier: one PRNG-chosen template per setting, all variable states
		holes = []c29hole{holes[rng.Intn(len(holes))]}
	}
	// where in a list the element with the reference sits; the other elements are literals
	// (or, for unconstrained elements, a reference to a variable that is never set)
	positions := []string{""}
	if f.Type == reflect.TypeOf([]string{}) {
		positions = []string{"first", "middle", "last"}
		if f.elementType() != "hostport" && f.elementType() != "url" {
			positions = append(positions, "first, last references an unset variable")
		}
	}
	if !all && len(positions) > 2 {
		// quick tier: one non-last position and one other, PRNG-chosen
		nonLast := []string{"first", "middle"}
		if len(positions) > 3 {
			nonLast = append(nonLast, positions[3])
		}
		positions = []string{nonLast[rng.Intn(len(nonLast))], verifkit.Pick(rng, "last", "first", "middle")}
		if positions[0] == positions[1] {
			positions = positions[:1]
		}
	}
	pos := positions[0]
	wrap := func(s string) (yamlText string) {
		switch {
		case f.Type.Kind() == reflect.String:
			return fmt.Sprintf("%q", s)
		case f.Type == reflect.TypeOf([]string{}):
			return c29listWith(pos, plain, s)
		default:
			return fmt.Sprintf("{plain: \"p\", verif: %q}", s)
		}
	}
	fill := func(tpl, with string) string {
		return fmt.Sprintf(tpl, repeat(with, strings.Count(tpl, "%s"))...)
	}
	type state struct {
		name   string
		env    func(h c29hole) map[string]string
		expect func(h c29hole) string
		sig    string
	}
	states := []state{
		{"set", func(h c29hole) map[string]string { return map[string]string{varName: h.val} }, func(h c29hole) string { return fill(h.tpl, h.val) }, "set-variable-not-expanded"},
		{"unset", func(h c29hole) map[string]string { return map[string]string{} }, func(h c29hole) string { return fill(h.tpl, ref) }, "unset-variable-reference-altered"},
		{"set-empty", func(h c29hole) map[string]string { return map[string]string{varName: ""} }, func(h c29hole) string { return fill(h.tpl, "") }, "set-but-empty-variable-not-expanded"},
	}
	// sources through which the reference can arrive
	type via struct {
		name string
		mk   func(text string, env map[string]string) c29load
	}
	vias := []via{{"file", func(text string, env map[string]string) c29load {
		return c29load{Files: []string{c29fileWith(f, wrap(text), true)}, Env: env}
	}}}
	if len(f.CmdEnv) > 0 && f.Type.Kind() == reflect.String {
		long, envName, _ := c29cmd(f.CmdEnv[0])
		vias = append(vias,
			via{"flag", func(text string, env map[string]string) c29load {
				return c29load{Files: []string{c29base}, Args: []string{"--" + long, text}, Env: env}
			}},
			via{"env", func(text string, env map[string]string) c29load {
				e := map[string]string{envName: text}
				for k, v := range env {
					e[k] = v
				}
				return c29load{Files: []string{c29base}, Env: e}
			}})
	}
	for _, h := range holes {
		tpl := h.tpl
		for _, st := range states {
			for _, pos = range positions {
				for _, v := range vias {
					text := fill(tpl, ref)
					ld := v.mk(text, st.env(h))
					r := c29run(t, ld)
					run.Eval(1)
					run.Count("expansion_loads", 1)
					placement := strings.ReplaceAll(tpl, "%s", "${V}")
					if elemForm != "" {
						placement = f.Type.String() + " " + elemForm + " " + placement
					}
					if pos != "" {
						placement += " at list position: " + pos
						run.Count("expansion_list_position_loads", 1)
					}
					if !r.accepted() {
						// a constrained setting may legitimately refuse the unexpanded reference
						// or the empty expansion; refusing the expanded valid value is not legitimate
						if st.name == "set" {
							run.Violation("C29/expansion/valid-after-expansion-rejected/"+f.Path+"/"+v.name,
								fmt.Sprintf("%s = %q with %s=%q is valid after expansion (%q) but is rejected: %s", f.Path, text, varName, h.val, st.expect(h), r.why()),
								c29exp{Setting: f.Path, Placement: placement, Variable: st.name, Load: ld, Expected: st.expect(h)})
						} else {
							run.Count("expansion_rejected_"+st.name, 1)
						}
						continue
					}
					wantText := st.expect(h)
					want, err := c29decode(f, wrap(wantText))
					if err != nil {
						t.Fatalf("c29: decode %q: %v", wrap(wantText), err)
					}
					got := c29render(c29effective(r, f))
					run.Nontrivial("expansion/" + f.Path + "/" + v.name + "/" + placement + "/" + st.name)
					if got != c29render(want) {
						run.Violation("C29/expansion/"+st.sig,
							fmt.Sprintf("%s = %q (via %s) with %s %s: effective %s, expected %s", f.Path, text, v.name, varName, st.name, got, c29render(want)),
							c29exp{Setting: f.Path, Placement: placement, Variable: st.name, Load: ld, Expected: c29render(want), Got: got})
					}
				}
			}
		}
	}
	// "$VAR" without braces is not a reference
	if f.strForm() == "free" && f.Type.Kind() == reflect.String {
		text := "pre-$" + varName + "-post"
		ld := c29load{Files: []string{c29fileWith(f, fmt.Sprintf("%q", text), true)}, Env: map[string]string{varName: "x"}}
		r := c29run(t, ld)
		run.Eval(1)
		if r.accepted() {
			if got := c29effective(r, f).String(); got != text {
				run.Violation("C29/expansion/reference-without-braces-altered",
					fmt.Sprintf("%s = %q became %q", f.Path, text, got), ld)
			}
		}
	}
}

// c29listWith renders a YAML list that holds s at the given position among literal
// elements derived from plain (valid for the list's element type).
func c29listWith(pos, plain, s string) string {
	plain2 := strings.Replace(strings.Replace(plain, "plain", "plain2", 1), "127.0.0.9:9", "127.0.0.8:8", 1)
	switch pos {
	case "first":
		return fmt.Sprintf("[%q, %q]", s, plain)
	case "middle":
		return fmt.Sprintf("[%q, %q, %q]", plain, s, plain2)
	case "first, last references an unset variable":
		return fmt.Sprintf("[%q, %q, %q]", s, plain, "keep-${VERIF_C29_NEVER_SET}-literal")
	default: // last
		return fmt.Sprintf("[%q, %q]", plain, s)
	}
}

func repeat(s string, n int) []any {
	out := make([]any, n)
	for i := range out {
		out[i] = s
	}
	return out
}

// ---- ${VAR} expansion in the configuration in force after a reload ------------------------

type c29reloadCase struct {
	Setting    string            `json:"setting"`
	NoValidate bool              `json:"no_validate"`
	Env        map[string]string `json:"env"`
	Variant    string            `json:"variant"`
	First      string            `json:"file_at_startup"`
	Second     string            `json:"file_at_reload,omitempty"`
	Expected   string            `json:"expected"`
	Got        string            `json:"effective"`
	ReloadErr  string            `json:"reload_error,omitempty"`
}

// c29expansionReload: start on a file whose setting holds ${VAR1}; check; Reload with
// unchanged content (control: no-op); change the file (same setting now ${VAR2}, another
// setting, or ${VAR3} that is unset); Reload; the effective value read the same way must
// follow the same rule as at startup, and equal what startup on the new file yields.
func c29expansionReload(t *testing.T, run *verifkit.Run, rng *verifkit.Rand, f c29field, all bool) {
	if !f.stringValued() || f.Dead {
		return
	}
	k1, k2 := rng.Range(1, 4000), rng.Range(4001, 9000)
	tag := strings.ToUpper(rng.Hex(4))
	v1, v2, v3 := "VERIF_C29_R1_"+tag, "VERIF_C29_R2_"+tag, "VERIF_C29_R3_"+tag
	var choices []string
	if f.Meta != nil {
		choices = f.Meta.Choices
	}
	form, plain := f.strForm(), "plain"
	if f.Type.Kind() != reflect.String {
		switch f.elementType() {
		case "hostport":
			form, plain = "hostport", "127.0.0.9:9"
		case "url":
			form, plain = "peerurl", "http://plain.example.com:8081"
		default:
			form = "free"
		}
		choices = nil
	}
	h1s, h2s := c29holes(form, choices, k1), c29holes(form, choices, k2)
	hi := rng.Intn(len(h1s))
	h1, h2 := h1s[hi], h2s[hi]
	listPos := verifkit.Pick(rng, "first", "middle", "last")
	wrap := func(s string) string {
		switch {
		case f.Type.Kind() == reflect.String:
			return fmt.Sprintf("%q", s)
		case f.Type == reflect.TypeOf([]string{}):
			return c29listWith(listPos, plain, s)
		default:
			return fmt.Sprintf("{plain: \"p\", verif: %q}", s)
		}
	}
	fill := func(tpl, with string) string {
		return fmt.Sprintf(tpl, repeat(with, strings.Count(tpl, "%s"))...)
	}
	env := map[string]string{v1: h1.val, v2: h2.val} // v3 stays unset
	// another setting to change in the "other setting" variant
	other := "Debugging:\n  DryRun: true\n"
	if f.Group == "Debugging" {
		other = "RefineryTelemetry:\n  AddCountsToRoot: true\n"
	}
	type variant struct {
		name     string
		second   string // file content at reload
		expected string // expected text of the setting after the reload
		sig      string
	}
	first := c29fileWith(f, wrap(fill(h1.tpl, "${"+v1+"}")), true)
	variants := []variant{
		{"same setting now references another set variable", c29fileWith(f, wrap(fill(h2.tpl, "${"+v2+"}")), true), fill(h2.tpl, h2.val), "set-variable-not-expanded"},
		{"another setting changes, the reference stays", first + other, fill(h1.tpl, h1.val), "set-variable-not-expanded"},
		{"same setting now references an unset variable", c29fileWith(f, wrap(fill(h1.tpl, "${"+v3+"}")), true), fill(h1.tpl, "${"+v3+"}"), "unset-variable-reference-altered"},
	}
	if !all {
		drop := rng.Intn(len(variants))
		variants = append(variants[:drop:drop], variants[drop+1:]...)
	}

	// the environment stays set from startup through the reloads, then is restored
	for k, v := range env {
		os.Setenv(k, v)
	}
	os.Unsetenv(v3)
	defer func() {
		for k := range env {
			os.Unsetenv(k)
		}
	}()

	for _, va := range variants {
		noValidate := rng.Chance(0.35)
		c29dirN++
		dir := filepath.Join(t.TempDir(), fmt.Sprintf("r%d", c29dirN))
		if err := os.MkdirAll(dir, 0o755); err != nil {
			t.Fatal(err)
		}
		cp, rp := filepath.Join(dir, "config.yaml"), filepath.Join(dir, "rules.yaml")
		os.WriteFile(cp, []byte(first), 0o644)
		os.WriteFile(rp, []byte(c29rules), 0o644)
		args := []string{"--config", cp, "--rules_config", rp}
		if noValidate {
			args = append(args, "--no-validate")
		}
		mk := func() Config {
			o, err := NewCmdEnvOptions(args)
			if err != nil {
				t.Fatalf("c29: NewCmdEnvOptions: %v", err)
			}
			c, _ := NewConfig(o)
			return c
		}
		cs := c29reloadCase{Setting: f.Path, NoValidate: noValidate, Env: env, Variant: va.name, First: first}
		c := mk()
		run.Eval(1)
		run.Count("reload_expansion_cases", 1)
		if c == nil {
			t.Fatalf("c29: startup on %q rejected although the expansion group accepts the same shape", first)
		}
		calls := 0
		c.RegisterReloadCallback(func(string, string) { calls++ })
		want1, err := c29decode(f, wrap(fill(h1.tpl, h1.val)))
		if err != nil {
			t.Fatal(err)
		}
		read := func() string { return c29render(c29loaded(c).FieldByIndex(f.Index)) }
		if got := read(); got != c29render(want1) {
			cs.Expected, cs.Got = c29render(want1), got
			run.Violation("C29/expansion/set-variable-not-expanded", fmt.Sprintf("%s at startup: effective %s, expected %s", f.Path, got, cs.Expected), cs)
			os.RemoveAll(dir)
			continue
		}
		// control: unchanged content, Reload is a no-op
		if err := c.Reload(); err != nil {
			cs.ReloadErr = err.Error()
		}
		if got := read(); got != c29render(want1) || calls != 0 {
			cs.Expected, cs.Got = c29render(want1), got
			run.Violation("C29/expansion/after-reload/unchanged-content-reload-not-a-no-op",
				fmt.Sprintf("%s: Reload with unchanged content: effective %s (expected %s), %d listener calls (expected 0)", f.Path, got, cs.Expected, calls), cs)
		}
		// the change
		cs.Second = va.second
		tmp := cp + ".tmp"
		os.WriteFile(tmp, []byte(va.second), 0o644)
		os.Rename(tmp, cp)
		ref := mk() // what startup makes of the new file, same environment
		rerr := c.Reload()
		if rerr != nil {
			cs.ReloadErr = rerr.Error()
		}
		if ref == nil {
			// startup refuses the new content (e.g. a literal ${VAR} in a constrained
			// setting): the running config must stay as it was
			run.Count("reload_expansion_new_content_rejected", 1)
			if got := read(); got != c29render(want1) || calls != 0 {
				cs.Expected, cs.Got = c29render(want1), got
				run.Violation("C29/expansion/after-reload/rejected-content-changed-effective-value",
					fmt.Sprintf("%s: startup rejects the new file but after Reload the effective value is %s (was %s), %d listener calls", f.Path, got, cs.Expected, calls), cs)
			}
			os.RemoveAll(dir)
			continue
		}
		want2, err := c29decode(f, wrap(va.expected))
		if err != nil {
			t.Fatal(err)
		}
		got := read()
		cs.Expected, cs.Got = c29render(want2), got
		mode := "validate"
		if noValidate {
			mode = "no-validate"
		}
		run.Nontrivial("expansion-after-reload/" + f.Path + "/" + va.name + "/" + mode + "/" + h1.tpl)
		switch {
		case got == c29render(want2):
			run.Count("reload_expansion_effective_values_checked", 1)
			if calls != 1 {
				run.Violation("C29/expansion/after-reload/listener-calls",
					fmt.Sprintf("%s: %d listener calls for one applied change", f.Path, calls), cs)
			}
		case got == c29render(want1) && va.expected != fill(h1.tpl, h1.val):
			run.Violation("C29/expansion/after-reload/accepted-change-not-in-force",
				fmt.Sprintf("%s: startup accepts the new file, after Reload the effective value is still %s, expected %s (reload error: %q)", f.Path, got, cs.Expected, cs.ReloadErr), cs)
		default:
			run.Violation("C29/expansion/after-reload/"+va.sig,
				fmt.Sprintf("%s (%s, %s): after Reload the effective value is %s, expected %s; startup on the same file and environment yields %s",
					f.Path, va.name, mode, got, cs.Expected, c29render(c29loaded(ref).FieldByIndex(f.Index))), cs)
		}
		// the whole reloaded configuration equals what startup yields, through the getters too
		if a, b := c29render(c29loaded(c)), c29render(c29loaded(ref)); a != b && got == c29render(want2) {
			run.Violation("C29/expansion/after-reload/reloaded-config-differs-from-startup-on-same-file",
				fmt.Sprintf("%s: the setting is right but the reloaded config differs from a fresh start on the same file", f.Path), cs)
		}
		c29getters(run, c29result{cfg: c}, "after-reload/"+f.Path)
		os.RemoveAll(dir)
	}
}

// ---- validation vs use ---------------------------------------------------------------------

// c29bad returns a value the setting's documented validation must refuse, "" if the
// setting accepts any text.
func c29bad(f c29field) string {
	if f.Type.Kind() != reflect.String {
		return ""
	}
	switch f.strForm() {
	case "choice":
		if f.hasValidation("choice", "") {
			return "bogus-choice"
		}
	case "hostport":
		return "no-port-here"
	case "url":
		return "ftp://wrong-scheme.example.com"
	case "apikey":
		return "not a key!"
	case "version":
		return "two.zero"
	case "alnum":
		return "not-alnum!"
	}
	return ""
}

func c29invalid(t *testing.T, run *verifkit.Run, rng *verifkit.Rand, f c29field) {
	bad := c29bad(f)
	if bad == "" || f.Dead {
		return
	}
	varName := fmt.Sprintf("VERIF_C29_BAD_%s", strings.ToUpper(rng.Hex(4)))
	type attempt struct {
		name string
		ld   c29load
	}
	attempts := []attempt{
		{"file", c29load{Files: []string{c29fileWith(f, fmt.Sprintf("%q", bad), true)}}},
		{"file-after-expansion", c29load{Files: []string{c29fileWith(f, fmt.Sprintf("%q", "${"+varName+"}"), true)}, Env: map[string]string{varName: bad}}},
	}
	good, _ := c29nth(f, 0, rng.Range(1, 40))
	for _, cmdName := range f.CmdEnv {
		long, env, _ := c29cmd(cmdName)
		// the file holds a valid value; the override makes the used value invalid
		attempts = append(attempts,
			attempt{"flag(" + cmdName + ")", c29load{Files: []string{c29fileWith(f, good.YAML, true)}, Args: []string{"--" + long, bad}}},
			attempt{"env(" + cmdName + ")", c29load{Files: []string{c29fileWith(f, good.YAML, true)}, Env: map[string]string{env: bad}}},
			attempt{"env-after-expansion(" + cmdName + ")", c29load{Files: []string{c29fileWith(f, good.YAML, true)}, Env: map[string]string{env: "${" + varName + "}", varName: bad}}},
		)
	}
	for _, a := range attempts {
		r := c29run(t, a.ld)
		run.Eval(1)
		run.Count("invalid_value_loads", 1)
		if !r.accepted() {
			run.Nontrivial("invalid/" + f.Path + "/" + a.name)
			continue
		}
		got := c29effective(r, f).String()
		if got == bad {
			run.Violation("C29/validation-vs-use/invalid-value-accepted-and-used/"+f.Path+"/"+a.name,
				fmt.Sprintf("%s: the value %q (via %s) fails the setting's documented validation, yet the config is accepted and %q is the effective value", f.Path, bad, a.name, got),
				map[string]any{"setting": f.Path, "via": a.name, "load": a.ld, "effective": got})
		} else {
			run.Violation("C29/validation-vs-use/invalid-value-silently-replaced/"+f.Path+"/"+a.name,
				fmt.Sprintf("%s: the invalid value %q (via %s) is accepted and the effective value is %q", f.Path, bad, a.name, got),
				map[string]any{"setting": f.Path, "via": a.name, "load": a.ld, "effective": got})
		}
	}
}

// ---- documented names ----------------------------------------------------------------------

type c29doc struct {
	Path  string
	Envs  []string
	Flags []string
}

var c29nameRe = regexp.MustCompile(`[A-Za-z0-9_-]+`)

func c29documented(t *testing.T) []c29doc {
	raw, err := c29metaYAML()
	if err != nil {
		t.Fatalf("c29: cannot read metadata: %v", err)
	}
	var doc struct {
		Groups []struct {
			Name        string           `yaml:"name"`
			LastVersion string           `yaml:"lastversion"`
			Fields      []map[string]any `yaml:"fields"`
		} `yaml:"groups"`
	}
	if err := yaml.Unmarshal(raw, &doc); err != nil {
		t.Fatalf("c29: metadata does not parse: %v", err)
	}
	var out []c29doc
	for _, g := range doc.Groups {
		for _, f := range g.Fields {
			if g.LastVersion != "" || f["lastversion"] != nil {
				continue
			}
			d := c29doc{Path: g.Name + "." + fmt.Sprint(f["name"])}
			if s, ok := f["envvar"].(string); ok {
				d.Envs = c29nameRe.FindAllString(s, -1)
			}
			for _, key := range []string{"commandline", "commandLine"} {
				if s, ok := f[key].(string); ok {
					d.Flags = append(d.Flags, c29nameRe.FindAllString(s, -1)...)
				}
			}
			if len(d.Envs)+len(d.Flags) > 0 {
				out = append(out, d)
			}
		}
	}
	return out
}

func c29documentedNames(t *testing.T, run *verifkit.Run, fields []c29field) {
	byPath := map[string]c29field{}
	for _, f := range fields {
		byPath[f.Path] = f
	}
	implementedEnv := map[string]bool{}
	ct := reflect.TypeOf(CmdEnv{})
	for i := 0; i < ct.NumField(); i++ {
		if e := ct.Field(i).Tag.Get("env"); e != "" {
			implementedEnv[e] = true
		}
	}
	documentedEnv := map[string]bool{}
	for _, d := range c29documented(t) {
		f, ok := byPath[d.Path]
		if !ok {
			run.Violation("C29/documented-name-without-effect/no-such-setting/"+d.Path,
				fmt.Sprintf("the metadata documents names for %s, which is not a setting of the loaded config", d.Path), d)
			continue
		}
		effective := map[string]bool{} // documented names that do take effect
		try := func(kind, name string, n int) {
			v, _ := c29nth(f, n, 5)
			other, _ := c29nth(f, n+2, 5)
			ld := c29load{Files: []string{c29fileWith(f, other.YAML, true)}, Env: map[string]string{}}
			if kind == "env" {
				ld.Env[name] = v.CLI
				documentedEnv[name] = true
			} else {
				ld.Args = []string{"--" + name, v.CLI}
			}
			r := c29run(t, ld)
			run.Eval(1)
			run.Count("documented_names_tried", 1)
			want, _ := c29decode(f, v.YAML)
			switch {
			case r.flagErr != nil:
				run.Violation("C29/documented-name-without-effect/"+kind+"/"+name,
					fmt.Sprintf("%s: the documented %s %q is not accepted: %v", d.Path, kind, name, r.flagErr), ld)
			case !r.accepted():
				run.Violation("C29/documented-name-without-effect/"+kind+"/"+name+"/rejected",
					fmt.Sprintf("%s: a valid value given through the documented %s %q is rejected: %s", d.Path, kind, name, r.why()), ld)
			default:
				run.Nontrivial("documented/" + kind + "/" + name)
				if got := c29render(c29effective(r, f)); got == c29render(want) {
					effective[kind+"/"+name] = true
				} else {
					run.Violation("C29/documented-name-without-effect/"+kind+"/"+name,
						fmt.Sprintf("%s: the documented %s %s=%s has no effect: effective value %s (the file's), expected %s", d.Path, kind, name, v.CLI, got, c29render(want)),
						map[string]any{"setting": d.Path, "documented": d, "load": ld, "effective": got, "cmdenv_tag": f.CmdEnv})
				}
			}
		}
		for i, e := range d.Envs {
			try("env", e, i)
		}
		// several documented variables for one setting: the one documented first is the
		// specific one and wins over the shared one (README: "REFINERY_HONEYCOMB_LOGGER_API_KEY
		// takes precedence over REFINERY_HONEYCOMB_API_KEY")
		if len(d.Envs) > 1 && effective["env/"+d.Envs[0]] && effective["env/"+d.Envs[1]] {
			v0, _ := c29nth(f, 0, 6)
			v1, _ := c29nth(f, 1, 6)
			ld := c29load{Files: []string{c29base}, Env: map[string]string{d.Envs[0]: v0.CLI, d.Envs[1]: v1.CLI}}
			r := c29run(t, ld)
			run.Eval(1)
			if r.accepted() {
				run.Nontrivial("documented-order/" + d.Path)
				want, _ := c29decode(f, v0.YAML)
				if got := c29render(c29effective(r, f)); got != c29render(want) {
					run.Violation("C29/precedence/"+d.Path+"/specific-env-loses-to-shared-env",
						fmt.Sprintf("%s: %s=%s and %s=%s are both set; effective %s, expected the specific variable's %s", d.Path, d.Envs[0], v0.CLI, d.Envs[1], v1.CLI, got, c29render(want)), ld)
				}
			}
		}
		for i, fl := range d.Flags {
			try("flag", fl, i)
		}
	}
	for e := range implementedEnv {
		if !documentedEnv[e] {
			run.Count("implemented_env_names_not_in_metadata", 1)
		}
	}
}

// ---- the config location itself: flag > env -------------------------------------------------

func c29locations(t *testing.T, run *verifkit.Run, rng *verifkit.Rand, variant int) {
	dir := filepath.Join(t.TempDir(), fmt.Sprintf("loc%d-%d", variant, rng.Intn(1<<30)))
	os.MkdirAll(dir, 0o755)
	defer os.RemoveAll(dir)
	k := rng.Range(1, 9000)
	write := func(name, content string) string {
		p := filepath.Join(dir, name)
		os.WriteFile(p, []byte(content), 0o644)
		return p
	}
	mk := func(tag string) string {
		return c29base + fmt.Sprintf("  DatasetPrefix: %s%d\n", tag, k)
	}
	fa, fb := write("a.yaml", mk("a")), write("b.yaml", mk("b"))
	fc := write("c.yaml", fmt.Sprintf("Traces:\n  TraceTimeout: %ds\n", 100+k%500))
	rp := write("rules.yaml", c29rules)
	set := func(env map[string]string) func() {
		old := map[string]*string{}
		for k, v := range env {
			if o, ok := os.LookupEnv(k); ok {
				old[k] = &o
			} else {
				old[k] = nil
			}
			os.Setenv(k, v)
		}
		return func() {
			for k, o := range old {
				if o == nil {
					os.Unsetenv(k)
				} else {
					os.Setenv(k, *o)
				}
			}
		}
	}
	args := []string{} // never nil: nil makes NewCmdEnvOptions read os.Args
	env := map[string]string{}
	wantPrefix, wantTimeout := "", ""
	switch variant {
	case 0: // env only
		env["REFINERY_CONFIG"], env["REFINERY_RULES_CONFIG"] = fa, rp
		wantPrefix = fmt.Sprintf("a%d", k)
	case 1: // flag beats env
		env["REFINERY_CONFIG"], env["REFINERY_RULES_CONFIG"] = fa, rp
		args = []string{"--config", fb}
		wantPrefix = fmt.Sprintf("b%d", k)
	case 2: // env lists two files, later overrides / adds
		env["REFINERY_CONFIG"], env["REFINERY_RULES_CONFIG"] = fa+","+fc, rp
		wantPrefix, wantTimeout = fmt.Sprintf("a%d", k), fmt.Sprintf("%ds", 100+k%500)
	case 3: // short flags, rules from flag although env names a missing file
		env["REFINERY_RULES_CONFIG"] = filepath.Join(dir, "missing.yaml")
		args = []string{"-c", fb, "-r", rp}
		wantPrefix = fmt.Sprintf("b%d", k)
	}
	restore := set(env)
	opts, err := NewCmdEnvOptions(args)
	var c Config
	if err == nil {
		c, err = NewConfig(opts)
	}
	restore()
	run.Eval(1)
	ld := map[string]any{"variant": variant, "flags": args, "env": env}
	if c == nil {
		run.Violation(fmt.Sprintf("C29/config-location/variant-%d-rejected", variant), fmt.Sprintf("loading failed: %v", err), ld)
		return
	}
	run.Nontrivial(fmt.Sprintf("location/%d", variant))
	if got := c.GetDatasetPrefix(); got != wantPrefix {
		run.Violation(fmt.Sprintf("C29/config-location/wrong-file-used/variant-%d", variant),
			fmt.Sprintf("DatasetPrefix = %q, expected %q", got, wantPrefix), ld)
	}
	if wantTimeout != "" {
		if got := c.GetTracesConfig().GetTraceTimeout().String(); !sameDuration(got, wantTimeout) {
			run.Violation("C29/config-location/second-env-file-not-applied", fmt.Sprintf("TraceTimeout = %s, expected %s", got, wantTimeout), ld)
		}
	}
}

func sameDuration(a, b string) bool {
	var da, db Duration
	if da.UnmarshalText([]byte(a)) != nil || db.UnmarshalText([]byte(b)) != nil {
		return false
	}
	return da == db
}
