//go:build verif

package config

import (
	"bytes"
	"fmt"
	"net/http"
	"net/http/httptest"
	"os"
	"path/filepath"
	"reflect"
	"regexp"
	"runtime"
	"sort"
	"strings"
	"sync"
	"sync/atomic"
	"testing"
	"time"

	"github.com/honeycombio/refinery/internal/verifkit"
)

// C27: config reloads apply exactly the acceptable changes.
//
// A real fileConfig is built with NewConfig over files in t.TempDir(). Each step of a
// history rewrites the config file(s) and the rules file with one of several content
// kinds, MEASURES what startup would do with exactly these files (NewConfig with the
// version string the instance was started with), triggers Reload (once, from 2-8
// goroutines at once, or from 2-8 goroutines under lock pinning) and compares
//   * every getter of the Config interface with the model
//       "new content iff changed and startup accepts it, else exactly as before",
//   * the reload callbacks of every registered listener with
//       "exactly one call, carrying the new hashes, per applied change; none otherwise".
//
// ---- adapters: the only uses of unexported identifiers -------------------------------

// c27pin takes the read lock of the config's own RWMutex (what any getter does) and
// returns the function releasing it.
func c27pin(c Config) func() {
	f := c.(*fileConfig)
	f.mux.RLock()
	return f.mux.RUnlock
}

// frame that identifies a goroutine as being inside Reload in a runtime.Stack dump
const c27reloadFrame = "config.(*fileConfig).Reload("

// ---- generic helpers (exported API only; duplicated in the configwatcher unit) --------

// c27dump renders a value deterministically, following pointers and sorting map keys.
func c27dump(b *strings.Builder, v reflect.Value, depth int) {
	if depth > 12 {
		b.WriteString("<deep>")
		return
	}
	if !v.IsValid() {
		b.WriteString("<invalid>")
		return
	}
	switch v.Kind() {
	case reflect.Ptr, reflect.Interface:
		if v.IsNil() {
			b.WriteString("nil")
			return
		}
		if v.Kind() == reflect.Ptr {
			b.WriteString("&")
		}
		c27dump(b, v.Elem(), depth+1)
	case reflect.Struct:
		b.WriteString(v.Type().Name() + "{")
		for i := 0; i < v.NumField(); i++ {
			if i > 0 {
				b.WriteString(", ")
			}
			b.WriteString(v.Type().Field(i).Name + ":")
			c27dump(b, v.Field(i), depth+1)
		}
		b.WriteString("}")
	case reflect.Map:
		keys := v.MapKeys()
		sort.Slice(keys, func(i, j int) bool { return fmt.Sprint(keys[i]) < fmt.Sprint(keys[j]) })
		if v.IsNil() || len(keys) == 0 {
			// a nil and an empty map are the same configuration
			b.WriteString("map[]")
			return
		}
		b.WriteString("map[")
		for i, k := range keys {
			if i > 0 {
				b.WriteString(", ")
			}
			fmt.Fprintf(b, "%v:", k)
			c27dump(b, v.MapIndex(k), depth+1)
		}
		b.WriteString("]")
	case reflect.Slice, reflect.Array:
		b.WriteString("[")
		for i := 0; i < v.Len(); i++ {
			if i > 0 {
				b.WriteString(", ")
			}
			c27dump(b, v.Index(i), depth+1)
		}
		b.WriteString("]")
	case reflect.String:
		fmt.Fprintf(b, "%q", v.String())
	case reflect.Func, reflect.Chan, reflect.UnsafePointer:
		b.WriteString("<" + v.Kind().String() + ">")
	default:
		if v.CanInterface() {
			fmt.Fprintf(b, "%v", v.Interface())
		} else {
			switch v.Kind() {
			case reflect.Bool:
				fmt.Fprintf(b, "%v", v.Bool())
			case reflect.Int, reflect.Int8, reflect.Int16, reflect.Int32, reflect.Int64:
				fmt.Fprintf(b, "%d", v.Int())
			case reflect.Uint, reflect.Uint8, reflect.Uint16, reflect.Uint32, reflect.Uint64, reflect.Uintptr:
				fmt.Fprintf(b, "%d", v.Uint())
			case reflect.Float32, reflect.Float64:
				fmt.Fprintf(b, "%v", v.Float())
			default:
				b.WriteString("<?>")
			}
		}
	}
}

// c27snapshot calls every getter of the Config interface (all methods without
// parameters, plus the by-destination getters for a fixed list of destinations) and
// returns getter name -> rendered value. GetConfigMetadata is left out (it carries a
// load time); the hashes are observed through GetHashes.
func c27snapshot(c Config) map[string]string {
	out := map[string]string{}
	v := reflect.ValueOf(c)
	it := reflect.TypeOf((*Config)(nil)).Elem()
	for i := 0; i < it.NumMethod(); i++ {
		m := it.Method(i)
		if m.Type.NumIn() != 0 || m.Type.NumOut() == 0 || m.Name == "GetConfigMetadata" {
			continue
		}
		res := v.MethodByName(m.Name).Call(nil)
		var b strings.Builder
		for j, r := range res {
			if j > 0 {
				b.WriteString(" | ")
			}
			c27dump(&b, r, 0)
		}
		out[m.Name] = b.String()
	}
	for _, dest := range []string{"__default__", "env0", "env1", "env2", "no-such-destination"} {
		s, name := c.GetSamplerConfigForDestName(dest)
		var b strings.Builder
		b.WriteString(name + " ")
		c27dump(&b, reflect.ValueOf(s), 0)
		out["GetSamplerConfigForDestName("+dest+")"] = b.String()
		out["GetSamplingKeyFieldsForDestName("+dest+")"] = fmt.Sprintf("%q", c.GetSamplingKeyFieldsForDestName(dest))
	}
	return out
}

func c27diff(a, b map[string]string) []string {
	var d []string
	for k, va := range a {
		if vb, ok := b[k]; !ok || va != vb {
			d = append(d, k)
		}
	}
	for k := range b {
		if _, ok := a[k]; !ok {
			d = append(d, k)
		}
	}
	sort.Strings(d)
	return d
}

func c27clip(s string) string {
	if len(s) > 300 {
		return s[:300] + "…"
	}
	return s
}

func c27diffText(names []string, got, want map[string]string) []string {
	var out []string
	for i, n := range names {
		if i >= 6 {
			out = append(out, fmt.Sprintf("… and %d more getters", len(names)-i))
			break
		}
		out = append(out, fmt.Sprintf("%s: got %s want %s", n, c27clip(got[n]), c27clip(want[n])))
	}
	return out
}

// ---- content generators ----------------------------------------------------------------

type c27kind string

const (
	c27Unchanged  c27kind = "unchanged"  // leave the file on disk as it is
	c27Restore    c27kind = "restore"    // write back the content that is currently applied
	c27Valid      c27kind = "valid"      // new valid content
	c27Warn       c27kind = "warning"    // new content carrying a deprecated setting
	c27Invalid    c27kind = "invalid"    // parses, fails validation
	c27Unparsable c27kind = "unparsable" // not YAML
	c27Unreadable c27kind = "unreadable" // file missing or a directory
)

// the deprecated settings that exist in configMeta.yaml (lastversion / deprecationtext)
var c27deprecated = []string{
	"RedisPeerManagement:\n  Prefix: pre%d\n",
	"Collection:\n  CacheCapacity: %d\n",
	"LegacyMetrics:\n  Enabled: false\n  ReportingInterval: %ds\n",
	"Collection:\n  RedistributionDelay: %ds\n",
}

var c27cfgInvalid = []string{
	"Network:\n  ListenAdr: 0.0.0.0:%d\n",             // unknown field
	"Traces:\n  BatchTimeout: %d\n",                   // wrong type (not a duration string)
	"Logger:\n  Type: bogus%d\n",                      // not one of the choices
	"NoSuchGroup:\n  Value: %d\n",                     // unknown group
	"StressRelief:\n  ActivationLevel: %d00000\n",     // above the maximum
	"Network:\n  HoneycombAPI: \"ftp://example%d\"\n", // url with a wrong scheme
}

var c27rulesInvalid = []string{
	"RulesVersion: 2\nSamplers:\n  __default__:\n    InvalidSampler:\n      SampleRate: %d\n",
	"RulesVersion: 2\nSamplers:\n  env0:\n    DeterministicSampler:\n      SampleRate: %d\n", // no __default__
	"RulesVersion: 1\nSamplers:\n  __default__:\n    DeterministicSampler:\n      SampleRate: %d\n",
	"RulesVersion: 2\nSamplers:\n  __default__:\n    DeterministicSampler:\n      SampleRat: %d\n",
	"RulesVersion: 2\nExtra: %d\nSamplers:\n  __default__:\n    DeterministicSampler:\n      SampleRate: 1\n",
}

var c27unparsable = []string{
	"General: [unclosed %d\n",
	"\tGeneral:\n\t\tConfigurationVersion: %d\n", // tabs are not YAML indentation
	"RulesVersion: 2\nSamplers: {__default__: {DeterministicSampler: {SampleRate: %d}\n",
}

// c27cfgValid: every value that varies carries the marker k, so the expected getter
// values of a version are known by construction.
func c27cfgValid(k int, extra string) string {
	return fmt.Sprintf(`General:
  ConfigurationVersion: 2
  DatasetPrefix: p%d
  ConfigReloadInterval: 24h
Network:
  ListenAddr: 0.0.0.0:%d
Traces:
  SendDelay: %dms
AccessKeys:
  ReceiveKeys:
    - key%d
Specialized:
  AdditionalAttributes:
    verif: v%d
%s`, k, 10000+k%50000, 1000+k, k, k, extra)
}

// second config file of a two-file setup: overrides one group of the first
func c27cfgSecond(k int) string {
	return fmt.Sprintf("Debugging:\n  AdditionalErrorFields:\n    - second%d\nTraces:\n  TraceTimeout: %ds\n", k, 30+k%1000)
}

func c27rulesValid(k int) string {
	return fmt.Sprintf(`RulesVersion: 2
Samplers:
  __default__:
    DeterministicSampler:
      SampleRate: %d
  env%d:
    DynamicSampler:
      SampleRate: %d
      FieldList:
        - field%d
`, k+1, k%3, k+2, k)
}

// c27markers returns the expected values of the marker getters for config version kc
// (second file version ks, -1 if there is none) and rules version kr.
func c27markers(kc, ks, kr int) map[string]string {
	m := map[string]string{
		"GetListenAddr":                            fmt.Sprintf("%q", fmt.Sprintf("0.0.0.0:%d", 10000+kc%50000)),
		"GetDatasetPrefix":                         fmt.Sprintf("%q", fmt.Sprintf("p%d", kc)),
		"GetAdditionalAttributes":                  fmt.Sprintf("map[verif:%q]", fmt.Sprintf("v%d", kc)),
		"GetSamplerConfigForDestName(__default__)": fmt.Sprintf("DeterministicSampler &DeterministicSamplerConfig{SampleRate:%d}", kr+1),
	}
	if ks >= 0 {
		m["GetAdditionalErrorFields"] = fmt.Sprintf("[%q]", fmt.Sprintf("second%d", ks))
	}
	return m
}

// ---- the instance under test -----------------------------------------------------------

type c27call struct {
	Cfg, Rules string
}

type c27listener struct {
	mu    sync.Mutex
	calls []c27call
}

func (l *c27listener) n() int {
	l.mu.Lock()
	defer l.mu.Unlock()
	return len(l.calls)
}

func (l *c27listener) since(n int) []c27call {
	l.mu.Lock()
	defer l.mu.Unlock()
	return append([]c27call(nil), l.calls[n:]...)
}

type c27file struct {
	srv     *c27server // non-nil: the source is served from this URL server
	urlPath string
	path    string
	applied []byte // content the running config was built from
	disk    []byte // nil = unreadable
	kc      int    // marker of the applied content
	kcOK    bool   // the applied content carries that marker
}

type c27step struct {
	Step       int      `json:"step"`
	CfgKinds   []string `json:"config_kinds"`
	RulesKind  string   `json:"rules_kind"`
	Mode       string   `json:"mode"`
	Goroutines int      `json:"goroutines"`
	Changed    bool     `json:"changed"`
	Startup    string   `json:"startup_on_same_files"`
	Applied    bool     `json:"applied_observed"`
	Errors     []string `json:"reload_errors,omitempty"`
}

// c27server serves config/rules sources over HTTP (a supported location kind). Its
// handler can park exactly one request AFTER it has captured the body it is going to
// send: that reloader has then "read" the old content and is slow, which lets the driver
// change the source and run other reloads in between, deterministically.
type c27server struct {
	srv     *httptest.Server
	mu      sync.Mutex
	content map[string][]byte // URL path -> body; nil body = connection dropped (unreadable)
	armed   string            // path whose next request is parked; "" = none
	parked  chan struct{}     // closed when the armed request has captured its body
	release chan struct{}     // closed by the driver to let the parked request answer
}

func c27newServer() *c27server {
	s := &c27server{content: map[string][]byte{}}
	s.srv = httptest.NewServer(http.HandlerFunc(func(w http.ResponseWriter, r *http.Request) {
		s.mu.Lock()
		body := s.content[r.URL.Path]
		var rel chan struct{}
		if s.armed == r.URL.Path {
			s.armed = ""
			rel = s.release
			close(s.parked)
		}
		s.mu.Unlock()
		if rel != nil {
			<-rel
		}
		if body == nil {
			if hj, ok := w.(http.Hijacker); ok {
				if conn, _, err := hj.Hijack(); err == nil {
					conn.Close()
					return
				}
			}
			w.WriteHeader(http.StatusInternalServerError)
			return
		}
		w.Header().Set("Content-Type", "application/yaml")
		w.Write(body)
	}))
	return s
}

func (s *c27server) set(path string, body []byte) {
	s.mu.Lock()
	s.content[path] = body
	s.mu.Unlock()
}

// arm parks the next request for path; it returns the channel closed once that request
// has captured its body, and the function that lets it answer (idempotent).
func (s *c27server) arm(path string) (parked <-chan struct{}, release func()) {
	s.mu.Lock()
	defer s.mu.Unlock()
	s.armed = path
	s.parked = make(chan struct{})
	rel := make(chan struct{})
	s.release = rel
	var once sync.Once
	return s.parked, func() {
		once.Do(func() {
			s.mu.Lock()
			if s.armed == path {
				s.armed = ""
			}
			s.mu.Unlock()
			close(rel)
		})
	}
}

// c27write publishes content at the source: a file (written atomically) or a URL body.
func c27write(t *testing.T, f *c27file, content []byte) {
	if f.srv != nil {
		f.srv.set(f.urlPath, content)
		return
	}
	path := f.path
	// a directory may be sitting in the file's place
	if st, err := os.Lstat(path); err == nil && st.IsDir() {
		if err := os.Remove(path); err != nil {
			t.Fatalf("c27: cannot remove dir %s: %v", path, err)
		}
	}
	tmp := path + ".tmp"
	if err := os.WriteFile(tmp, content, 0o644); err != nil {
		t.Fatalf("c27: write %s: %v", tmp, err)
	}
	if err := os.Rename(tmp, path); err != nil {
		t.Fatalf("c27: rename %s: %v", path, err)
	}
}

func c27makeUnreadable(t *testing.T, f *c27file, asDir bool) {
	if f.srv != nil {
		f.srv.set(f.urlPath, nil)
		return
	}
	path := f.path
	if st, err := os.Lstat(path); err == nil && st.IsDir() {
		if !asDir {
			os.Remove(path)
		}
		return
	}
	if err := os.Remove(path); err != nil && !os.IsNotExist(err) {
		t.Fatalf("c27: remove %s: %v", path, err)
	}
	if asDir {
		if err := os.Mkdir(path, 0o755); err != nil {
			t.Fatalf("c27: mkdir %s: %v", path, err)
		}
	}
}

var c27goroutineHeader = regexp.MustCompile(`(?m)^goroutine \d+ \[([^\]]*)\]:$`)

// c27parked counts the goroutines of the dump that have the Reload frame on their stack
// and are blocked on a sync primitive (mutex / rwmutex / semaphore wait).
func c27parked() int {
	buf := make([]byte, 1<<20)
	for {
		n := runtime.Stack(buf, true)
		if n < len(buf) {
			buf = buf[:n]
			break
		}
		buf = make([]byte, 2*len(buf))
	}
	parked := 0
	for _, g := range strings.Split(string(buf), "\n\n") {
		if !strings.Contains(g, c27reloadFrame) {
			continue
		}
		m := c27goroutineHeader.FindStringSubmatch(g)
		if m == nil {
			continue
		}
		state := m[1]
		if strings.HasPrefix(state, "sync.") || strings.HasPrefix(state, "semacquire") {
			parked++
		}
	}
	return parked
}

func TestVerif_C27(t *testing.T) {
	run := verifkit.Start(t, "C27", "config")
	defer run.Finish()
	run.Rule("seeded histories over a real fileConfig on temp files: per step each config file and the rules file get one of {unchanged, restore-applied, valid change, deprecated-setting (warning) change, validation-invalid, unparsable, unreadable}; startup acceptance is measured with NewConfig on the same files and the same version string; Reload is triggered once, from 2-8 goroutines at once, from 2-8 goroutines under lock pinning (driver holds the config's read lock until runtime.Stack shows every reloader returned or parked on a sync primitive below Reload), or as a stale-read overlap (sources served from an httptest URL; one reloader is held inside its read after the handler captured the old body, the sources are then changed and 1-3 further reloaders run until returned/parked, the first is released, all are joined, then one quiet reload), or as a late-listener step (a reloader is held inside its read of the already changed sources while one more listener is registered); non-trivial = history with at least one applied and one refused change; distinct = distinct (kinds, mode) step sequences")
	run.Assume("NewConfig(opts, version) on the same files in the same step is what 'startup would accept' means; the version string is the one the instance was started with")
	run.Assume("a changed file always differs in a configuration value (comment-only edits are not generated)")

	run.Cases("history", run.N(32, 200), func(i int, rng *verifkit.Rand) { c27history(t, run, rng) })

	// The race detector's view of overlapping reloads goes into the evidence as a counter
	// (the verdict on races belongs to C35; here the refuting observation is the double
	// application under lock pinning).
	if files, _ := filepath.Glob(filepath.Join(run.OutDir(), "race.config.*")); len(files) > 0 {
		for _, f := range files {
			b, _ := os.ReadFile(f)
			for _, rep := range strings.Split(string(b), "WARNING: DATA RACE")[1:] {
				if strings.Count(rep, c27reloadFrame) >= 2 {
					run.Count("race_reports_reload_vs_reload", 1)
				}
			}
		}
	}
}

func c27history(t *testing.T, run *verifkit.Run, rng *verifkit.Rand) {
	dir, err := os.MkdirTemp(t.TempDir(), "h")
	if err != nil {
		t.Fatal(err)
	}
	version := verifkit.Pick(rng, []string(nil), []string(nil), []string{"dev"}, []string{"v2.5.0"}, []string{"v2.9.0"}, []string{"v3.2.2"})
	nCfg := 1
	if rng.Chance(0.3) {
		nCfg = 2
	}
	next := 0 // marker counter: every generated content gets a fresh marker
	fresh := func() int { next++; return next + rng.Intn(3)*1000 }

	cfgs := make([]*c27file, nCfg)
	for j := range cfgs {
		cfgs[j] = &c27file{path: filepath.Join(dir, fmt.Sprintf("config%d.yaml", j))}
	}
	rules := &c27file{path: filepath.Join(dir, "rules.yaml")}
	// some histories read the first config (and maybe the rules) from a URL, which gives
	// the driver a read point it can hold open (mode "stale-read")
	var srv *c27server
	var urlSources []*c27file
	if rng.Chance(0.45) {
		srv = c27newServer()
		defer srv.srv.Close()
		cfgs[0].srv, cfgs[0].urlPath, cfgs[0].path = srv, "/config0.yaml", srv.srv.URL+"/config0.yaml"
		urlSources = append(urlSources, cfgs[0])
		if rng.Bool() {
			rules.srv, rules.urlPath, rules.path = srv, "/rules.yaml", srv.srv.URL+"/rules.yaml"
			urlSources = append(urlSources, rules)
		}
	}
	k0 := fresh()
	cfgs[0].disk, cfgs[0].kc = []byte(c27cfgValid(k0, "")), k0
	if nCfg == 2 {
		k1 := fresh()
		cfgs[1].disk, cfgs[1].kc = []byte(c27cfgSecond(k1)), k1
	}
	kr := fresh()
	rules.disk, rules.kc = []byte(c27rulesValid(kr)), kr
	for _, f := range append(append([]*c27file{}, cfgs...), rules) {
		c27write(t, f, f.disk)
		f.applied = f.disk
		f.kcOK = true
	}
	args := []string{}
	for _, f := range cfgs {
		args = append(args, "--config", f.path)
	}
	args = append(args, "--rules_config", rules.path)
	mkopts := func() *CmdEnv {
		o, err := NewCmdEnvOptions(args)
		if err != nil {
			t.Fatalf("c27: NewCmdEnvOptions: %v", err)
		}
		return o
	}
	c, err := NewConfig(mkopts(), version...)
	if c == nil {
		t.Fatalf("c27: initial NewConfig failed: %v", err)
	}

	var listeners []*c27listener
	addListener := func() {
		l := &c27listener{}
		listeners = append(listeners, l)
		c.RegisterReloadCallback(func(cfgHash, rulesHash string) {
			// a listener reads the configuration it is told about, like the real ones do
			_, _ = c.GetHashes()
			_ = c.GetTracesConfig()
			l.mu.Lock()
			l.calls = append(l.calls, c27call{cfgHash, rulesHash})
			l.mu.Unlock()
		})
	}
	for n := rng.Range(1, 3); n > 0; n-- {
		addListener()
	}

	// marker sanity of the initial state (harness self-check)
	{
		ks := -1
		if nCfg == 2 {
			ks = cfgs[1].kc
		}
		snap := c27snapshot(c)
		for g, want := range c27markers(cfgs[0].kc, ks, rules.kc) {
			if snap[g] != want {
				t.Fatalf("c27: harness marker table out of date: %s = %s, expected %s", g, snap[g], want)
			}
		}
	}

	steps := rng.Range(5, 10)
	var hist []c27step
	var abstract strings.Builder
	appliedSome, refusedSome := false, false
	// markers of what is on disk (only meaningful when the disk content is of kind valid/warning)
	diskMarker := map[*c27file]int{cfgs[0]: cfgs[0].kc, rules: rules.kc}
	if nCfg == 2 {
		diskMarker[cfgs[1]] = cfgs[1].kc
	}
	// markerOK: the disk content is one of the marker-carrying generators (valid/warning)
	markerOK := map[*c27file]bool{cfgs[0]: true, rules: true}
	if nCfg == 2 {
		markerOK[cfgs[1]] = true
	}

	for st := 0; st < steps; st++ {
		if rng.Chance(0.15) && len(listeners) < 4 { // (late-listener steps may add more)
			addListener()
		}
		rec := c27step{Step: st}

		mode := verifkit.Pick(rng, "single", "single", "concurrent", "pinned")
		if srv != nil {
			switch x := rng.Intn(100); {
			case x < 35:
				mode = "stale-read"
			case x < 60:
				mode = "late-listener"
			}
		}
		// ---- stale-read, first half: reloader R1 reads the sources as they are NOW and
		// is held inside its read of one URL source (the handler has already captured the
		// old body); only then are the sources rewritten below.
		var r1Done chan error
		releaseR1 := func() {}
		// Sources are read in order (config files, then rules). Only sources R1 has already
		// read when it is parked may change in a stale-read step, so that R1's view is one
		// consistent (old) state and not a mix the non-atomic rewrite never contained.
		armedIdx := nCfg
		// The parked read must be of a source that is readable right now: for a dropped
		// connection the HTTP client retries the GET after the release and would then read
		// the NEW body, i.e. a mix of old and new that the sources never held.
		var armable []*c27file
		for _, f := range urlSources {
			if f.disk != nil {
				armable = append(armable, f)
			}
		}
		if mode == "stale-read" && len(armable) == 0 {
			mode = "concurrent"
		}
		if mode == "stale-read" {
			armed := armable[rng.Intn(len(armable))]
			if armed != rules {
				armedIdx = 0
			}
			parked, rel := srv.arm(armed.urlPath)
			releaseR1 = rel
			r1Done = make(chan error, 1)
			go func() { r1Done <- c.Reload() }()
			select {
			case <-parked: // R1 holds the old content of the armed source
				run.Count("stale_read_reloader_parked_in_read", 1)
			case err := <-r1Done: // R1 failed before reaching the armed source
				r1Done <- err
				rel()
			case <-time.After(60 * time.Second):
				rel()
				run.Inconclusive("stale-read: first reloader neither reached its read nor returned")
				return
			}
		}
		defer releaseR1()

		// ---- rewrite the files
		pickCfgKind := func() c27kind {
			switch x := rng.Intn(20); {
			case x < 4:
				return c27Unchanged
			case x < 6:
				return c27Restore
			case x < 11:
				return c27Valid
			case x < 15:
				return c27Warn
			case x < 17:
				return c27Invalid
			case x < 18:
				return c27Unparsable
			default:
				return c27Unreadable
			}
		}
		for j, f := range cfgs {
			kind := pickCfgKind()
			if j == 1 && kind == c27Warn {
				kind = c27Valid
			}
			if mode == "stale-read" && j > armedIdx {
				kind = c27Unchanged
			}
			rec.CfgKinds = append(rec.CfgKinds, string(kind))
			k := fresh()
			if kind != c27Unchanged {
				markerOK[f] = (kind == c27Restore && f.kcOK) || kind == c27Valid || kind == c27Warn
			}
			switch kind {
			case c27Unchanged:
			case c27Restore:
				f.disk = f.applied
				diskMarker[f] = f.kc
			case c27Valid:
				if j == 0 {
					f.disk = []byte(c27cfgValid(k, ""))
				} else {
					f.disk = []byte(c27cfgSecond(k))
				}
				diskMarker[f] = k
			case c27Warn:
				f.disk = []byte(c27cfgValid(k, fmt.Sprintf(verifkit.Pick(rng, c27deprecated...), k%1000+1)))
				diskMarker[f] = k
			case c27Invalid:
				if j == 0 {
					f.disk = []byte(c27cfgValid(k, fmt.Sprintf(verifkit.Pick(rng, c27cfgInvalid...), k%1000+1)))
				} else {
					f.disk = []byte(fmt.Sprintf(verifkit.Pick(rng, c27cfgInvalid...), k%1000+1))
				}
			case c27Unparsable:
				f.disk = []byte(fmt.Sprintf(verifkit.Pick(rng, c27unparsable...), k))
			case c27Unreadable:
				f.disk = nil
			}
			if kind != c27Unchanged {
				if f.disk == nil {
					c27makeUnreadable(t, f, rng.Bool())
				} else {
					c27write(t, f, f.disk)
				}
			}
		}
		{
			var kind c27kind
			switch x := rng.Intn(20); {
			case x < 6:
				kind = c27Unchanged
			case x < 8:
				kind = c27Restore
			case x < 14:
				kind = c27Valid
			case x < 17:
				kind = c27Invalid
			case x < 18:
				kind = c27Unparsable
			default:
				kind = c27Unreadable
			}
			if mode == "stale-read" && nCfg > armedIdx {
				kind = c27Unchanged
			}
			rec.RulesKind = string(kind)
			k := fresh()
			if kind != c27Unchanged {
				markerOK[rules] = (kind == c27Restore && rules.kcOK) || kind == c27Valid
			}
			switch kind {
			case c27Restore:
				rules.disk = rules.applied
				diskMarker[rules] = rules.kc
			case c27Valid:
				rules.disk = []byte(c27rulesValid(k))
				diskMarker[rules] = k
			case c27Invalid:
				rules.disk = []byte(fmt.Sprintf(verifkit.Pick(rng, c27rulesInvalid...), k))
			case c27Unparsable:
				rules.disk = []byte(fmt.Sprintf(verifkit.Pick(rng, c27unparsable...), k))
			case c27Unreadable:
				rules.disk = nil
			}
			if kind != c27Unchanged {
				if rules.disk == nil {
					c27makeUnreadable(t, rules, rng.Bool())
				} else {
					c27write(t, rules, rules.disk)
				}
			}
		}

		// ---- model inputs
		changed := false
		readable := true
		for _, f := range append(append([]*c27file{}, cfgs...), rules) {
			if f.disk == nil {
				readable = false
			} else if !bytes.Equal(f.disk, f.applied) {
				changed = true
			}
		}
		rec.Changed = changed && readable
		before := c27snapshot(c)
		ref, refErr := NewConfig(mkopts(), version...)
		accept := ref != nil
		switch {
		case !accept:
			rec.Startup = "rejects"
			if readable == false {
				rec.Startup = "rejects (unreadable)"
			}
		case refErr != nil:
			rec.Startup = "accepts with warnings"
		default:
			rec.Startup = "accepts"
		}
		if !readable && accept {
			t.Fatalf("c27: harness bug: NewConfig accepted unreadable files")
		}
		expectApply := changed && readable && accept
		marks := make([]int, len(listeners))
		for li, l := range listeners {
			marks[li] = l.n()
		}

		// ---- trigger
		lateListener := -1 // index of a listener registered while a reloader was parked in its read
		g := 1
		if mode == "stale-read" {
			g = rng.Range(1, 3) // reloaders started after the change, besides R1
		} else if mode != "single" {
			g = rng.Range(2, 8)
		}
		rec.Mode, rec.Goroutines = mode, g
		errs := make([]error, g)
		switch mode {
		case "single":
			errs[0] = c.Reload()
		case "concurrent":
			var wg sync.WaitGroup
			start := make(chan struct{})
			for r := 0; r < g; r++ {
				wg.Add(1)
				go func(r int) {
					defer wg.Done()
					<-start
					errs[r] = c.Reload()
				}(r)
			}
			close(start)
			wg.Wait()
		case "pinned":
			release := c27pin(c)
			var wg sync.WaitGroup
			var done atomic.Int32
			for r := 0; r < g; r++ {
				wg.Add(1)
				go func(r int) {
					defer wg.Done()
					errs[r] = c.Reload()
					done.Add(1)
				}(r)
			}
			settled := false
			for tries := 0; tries < 200000; tries++ {
				d := int(done.Load())
				if d+c27parked() >= g {
					settled = true
					break
				}
				time.Sleep(200 * time.Microsecond) // poll pacing only; never decides a verdict
			}
			release()
			wg.Wait()
			if !settled {
				run.Inconclusive("pinned reloaders never all parked/returned")
				return
			}
			run.Count("pinned_steps", 1)
		case "late-listener":
			// One reloader reads the (already rewritten) sources and is held inside its
			// read of a URL source; while it is there - strictly before it can have
			// validated or committed anything - the driver registers one more listener
			// (RegisterReloadCallback has returned before the release). If this reload
			// applies the change, that listener was registered before the change was
			// applied and must be notified like every other one.
			armed := urlSources[rng.Intn(len(urlSources))]
			parked, rel := srv.arm(armed.urlPath)
			done := make(chan error, 1)
			go func() { done <- c.Reload() }()
			select {
			case <-parked:
				addListener()
				marks = append(marks, 0)
				lateListener = len(listeners) - 1
				run.Count("late_listener_registered_while_reload_parked_in_read", 1)
			case err := <-done: // failed before reaching the armed source
				done <- err
			case <-time.After(60 * time.Second):
				rel()
				run.Inconclusive("late-listener: reloader neither reached its read nor returned")
				return
			}
			rel()
			errs[0] = <-done
		case "stale-read":
			// second half: reloaders that read the NEW content run while R1 is still
			// inside its read. They may finish on their own or have to wait for R1 (both
			// fine); R1 is released only once each has returned or is parked on a sync
			// primitive below Reload (runtime.Stack, no timing).
			var wg sync.WaitGroup
			var done atomic.Int32
			for r := 0; r < g; r++ {
				wg.Add(1)
				go func(r int) {
					defer wg.Done()
					errs[r] = c.Reload()
					done.Add(1)
				}(r)
			}
			settled := false
			for tries := 0; tries < 200000; tries++ {
				d := int(done.Load())
				if d+c27parked() >= g {
					settled = true
					break
				}
				time.Sleep(200 * time.Microsecond) // poll pacing only; never decides a verdict
			}
			if int(done.Load()) < g {
				run.Count("stale_read_later_reloaders_waited_for_first", 1)
			} else {
				run.Count("stale_read_later_reloaders_finished_first", 1)
			}
			releaseR1()
			r1Err := <-r1Done
			wg.Wait()
			if !settled {
				run.Inconclusive("stale-read: later reloaders never all parked/returned")
				return
			}
			if r1Err != nil && errs[0] == nil {
				errs[0] = r1Err
			}
			run.Count("stale_read_steps", 1)
			run.Count("reload_calls", 1)
		}
		for _, e := range errs {
			if e != nil {
				rec.Errors = append(rec.Errors, c27clip(strings.ReplaceAll(e.Error(), dir, "<dir>")))
				break
			}
		}
		run.Count("reload_calls", int64(g))
		run.Count("steps", 1)

		// ---- compare getters
		after := c27snapshot(c)
		var refSnap map[string]string
		if accept {
			refSnap = c27snapshot(ref)
		}
		gotNew := accept && len(c27diff(after, refSnap)) == 0
		gotOld := len(c27diff(after, before)) == 0
		rec.Applied = gotNew && !gotOld
		hist = append(hist, rec)
		fmt.Fprintf(&abstract, "%s/%s/%s;", strings.Join(rec.CfgKinds, "+"), rec.RulesKind, mode)
		witness := func(extra ...string) any {
			return map[string]any{"version": version, "config_files": nCfg, "history": hist, "detail": extra,
				"config_on_disk": c27diskText(cfgs), "rules_on_disk": c27diskText([]*c27file{rules})}
		}
		conc := ""
		switch mode {
		case "single":
		case "stale-read":
			conc = "stale-read-"
		default:
			conc = "concurrent-"
		}
		switch {
		case expectApply && gotNew:
			appliedSome = true
			run.Count("changes_applied", 1)
			// independent marker check: the values are the ones written into the files
			ks := -1
			if nCfg == 2 {
				ks = diskMarker[cfgs[1]]
			}
			allMarked := true
			for _, ok := range markerOK {
				allMarked = allMarked && ok
			}
			for gname, want := range c27markers(diskMarker[cfgs[0]], ks, diskMarker[rules]) {
				if allMarked && after[gname] != want {
					run.Violation("C27/Reload/applied-values-differ-from-file-content",
						fmt.Sprintf("after an applied reload %s = %s, the files say %s", gname, after[gname], want), witness())
				}
			}
		case expectApply && gotOld:
			if refErr != nil && mode != "stale-read" {
				run.Violation("C27/Reload/warning-only-change-not-applied",
					"startup (NewConfig on the same files) accepts the changed files with warnings, Reload applied nothing",
					witness(c27diffText(c27diff(after, refSnap), after, refSnap)...))
			} else {
				run.Violation("C27/Reload/"+conc+"acceptable-change-not-applied",
					"startup accepts the changed files, Reload applied nothing",
					witness(c27diffText(c27diff(after, refSnap), after, refSnap)...))
			}
		case expectApply:
			run.Violation("C27/Reload/change-partially-applied",
				"after reloading an acceptable change the getters match neither the new nor the previous configuration",
				witness(c27diffText(c27diff(after, refSnap), after, refSnap)...))
		case !gotOld:
			refusedSome = refusedSome || changed
			cls := "unchanged-content"
			if changed || !readable {
				cls = "content-startup-rejects"
			}
			run.Violation("C27/Reload/running-config-altered-by-"+cls,
				"the files are "+rec.Startup+"/changed="+fmt.Sprint(changed)+" but the getters changed",
				witness(c27diffText(c27diff(after, before), after, before)...))
		default:
			if changed || !readable {
				refusedSome = true
				run.Count("changes_refused", 1)
			}
		}

		// ---- stale-read: a further, quiet reload must find nothing left to do when the
		// change was applied (its callbacks also count into the per-change total below)
		if mode == "stale-read" {
			qmarks := make([]int, len(listeners))
			for li, l := range listeners {
				qmarks[li] = l.n()
			}
			_ = c.Reload()
			run.Count("reload_calls", 1)
			for li, l := range listeners {
				if n := l.n() - qmarks[li]; n != 0 && (!expectApply || gotNew) {
					run.Violation("C27/Reload/quiet-reload-after-overlap-notifies-again",
						fmt.Sprintf("after the overlapping reloads finished (getters showed the newest content: %v), a reload with unchanged sources called listener %d %d more time(s)", gotNew, li, n), witness())
				}
			}
			if expectApply && gotNew {
				if d := c27diff(c27snapshot(c), refSnap); len(d) != 0 {
					run.Violation("C27/Reload/quiet-reload-after-overlap-changes-config",
						"a reload with unchanged sources changed the getters", witness(c27diffText(d, c27snapshot(c), refSnap)...))
				}
			}
		}

		// ---- compare listener notifications
		for li, l := range listeners {
			calls := l.since(marks[li])
			switch {
			case expectApply && len(calls) == 1:
				hc, hr := ref.GetHashes()
				if calls[0].Cfg != hc || calls[0].Rules != hr {
					run.Violation("C27/Reload/listener-notified-with-other-hashes",
						fmt.Sprintf("listener got (%s,%s), startup on the same files has (%s,%s)", calls[0].Cfg, calls[0].Rules, hc, hr), witness())
				}
				run.Count("notifications_checked", 1)
			case expectApply && len(calls) == 0:
				if gotNew && li == lateListener {
					run.Violation("C27/Reload/listener-registered-during-reload-read-not-notified",
						fmt.Sprintf("listener %d was registered (RegisterReloadCallback returned) while the reloader was still reading its sources; that reload applied the change and notified the other %d listeners, but not this one", li, len(listeners)-1), witness())
				} else if gotNew {
					run.Violation("C27/Reload/listener-not-notified-of-applied-change",
						fmt.Sprintf("listener %d of %d got no callback for an applied change", li, len(listeners)), witness())
				}
				// (not applied at all is reported above)
			case expectApply:
				run.Violation("C27/Reload/"+conc+"change-applied-more-than-once",
					fmt.Sprintf("listener %d got %d callbacks %v for one change (%d reloaders, mode %s)", li, len(calls), calls, g, mode), witness())
			case len(calls) != 0:
				run.Violation("C27/Reload/listener-notified-without-applied-change",
					fmt.Sprintf("listener %d got %d callbacks although nothing was to be applied (startup %s, changed=%v)", li, len(calls), rec.Startup, changed), witness())
			}
		}

		// ---- the model follows what the instance actually runs
		if accept {
			hc, hr := c.GetHashes()
			rc, rr := ref.GetHashes()
			if hc == rc && hr == rr {
				for _, f := range append(append([]*c27file{}, cfgs...), rules) {
					f.applied = f.disk
					f.kc = diskMarker[f]
					f.kcOK = markerOK[f]
				}
			}
		}
	}
	if appliedSome && refusedSome {
		run.Nontrivial(abstract.String())
	}
	run.Sample(map[string]any{"version": version, "config_files": nCfg, "listeners": len(listeners), "history": hist})
}

func c27diskText(fs []*c27file) []string {
	var out []string
	for _, f := range fs {
		if f.disk == nil {
			out = append(out, "<unreadable>")
		} else {
			out = append(out, string(f.disk))
		}
	}
	return out
}
