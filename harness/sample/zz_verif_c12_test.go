//go:build verif

package sample

import (
	"fmt"
	"reflect"
	"sort"
	"strings"
	"sync"
	"testing"
	"time"

	dynsampler "github.com/honeycombio/dynsampler-go"

	"github.com/honeycombio/refinery/config"
	"github.com/honeycombio/refinery/internal/verifkit"
	"github.com/honeycombio/refinery/logger"
	"github.com/honeycombio/refinery/metrics"
	"github.com/honeycombio/refinery/types"
)

// C12: sampler state is shared across workers and isolated between definitions.
//
// The monitor drives the real SamplerFactory the way collector workers do
// (per-worker sampler cache, lazy GetSamplerImplementationForKey, reload =
// config swap + ClearDynsamplers + every worker clears its cache) from 1..16
// goroutine workers, and at every quiescent point looks at the rate-tracking
// object (dynsampler) behind every sampler every worker holds:
//   - same environment + same definition slot on two workers  -> must be ONE object
//   - slots of two different environments/datasets             -> must be different objects
//   - two slots of one environment whose configurations differ -> must be different objects
//   - two slots of one environment with identical configuration (FieldList order is
//     not considered a difference: the samplers sort it) -> either answer allowed
// Pointer identity is cross-checked behaviourally: feeding k traces through one
// sampler's public GetSampleRate must raise the request counter seen through every
// other sampler by k iff it is the same object.

// ---- adapters: every unexported identifier of package sample used below ----

func c12Backing(s Sampler) (dyn dynsampler.Sampler, metricPrefix string, ok bool) {
	switch v := s.(type) {
	case *DynamicSampler:
		return v.dynsampler, v.metricsRecorder.dynPrefix, true
	case *EMADynamicSampler:
		return v.dynsampler, v.metricsRecorder.dynPrefix, true
	case *TotalThroughputSampler:
		return v.dynsampler, v.metricsRecorder.dynPrefix, true
	case *EMAThroughputSampler:
		return v.dynsampler, v.metricsRecorder.dynPrefix, true
	case *WindowedThroughputSampler:
		return v.dynsampler, v.metricsRecorder.dynPrefix, true
	}
	return nil, "", false
}

func c12Downstream(s Sampler, rule *config.RulesBasedSamplerRule) Sampler {
	rs, ok := s.(*RulesBasedSampler)
	if !ok {
		return nil
	}
	return rs.samplers[rule.String()]
}

// what InMemCollector.reloadConfigs does to the factory
func c12FactoryReload(f *SamplerFactory) { f.ClearDynsamplers() }

// ---- definitions -----------------------------------------------------------

type c12def struct {
	Kind string `json:"kind"`
	Cfg  any    `json:"config"`
}

var c12kinds = []string{"dynamic", "emadynamic", "totalthroughput", "emathroughput", "windowedthroughput"}

func c12newCfg(kind string) any {
	switch kind {
	case "dynamic":
		return &config.DynamicSamplerConfig{}
	case "emadynamic":
		return &config.EMADynamicSamplerConfig{}
	case "totalthroughput":
		return &config.TotalThroughputSamplerConfig{}
	case "emathroughput":
		return &config.EMAThroughputSamplerConfig{}
	case "windowedthroughput":
		return &config.WindowedThroughputSamplerConfig{}
	}
	panic("c12: unknown kind " + kind)
}

// candidate values per configuration field. No set contains both the zero value
// and the default the sampler substitutes for it, so two different candidates
// always mean two semantically different configurations.
var c12values = map[string][]any{
	"SampleRate":           {2, 10, 100},
	"GoalSampleRate":       {2, 10, 100},
	"GoalThroughputPerSec": {1, 7, 100, 1000},
	"ClearFrequency":       {time.Duration(0), 10 * time.Second, 45 * time.Second, 2 * time.Minute}, // default 30s
	"MaxKeys":              {0, 50, 200, 1000},                                                      // default 500
	"UseTraceLength":       {false, true},
	"UseClusterSize":       {false, true},
	"AdjustmentInterval":   {time.Duration(0), 20 * time.Second, 60 * time.Second}, // default 15s
	"Weight":               {0.2, 0.7},
	"AgeOutValue":          {0.0, 0.25, 0.65},                                                                                         // default = Weight
	"BurstMultiple":        {0.0, 1.5, 3.0},                                                                                           // default 2
	"BurstDetectionDelay":  {0, 1, 5},                                                                                                 // default 3
	"InitialSampleRate":    {0, 5, 20},                                                                                                // default 10
	"UpdateFrequency":      {time.Duration(0), 10 * time.Second, 20 * time.Second, 2 * time.Second, 3 * time.Second, 7 * time.Second}, // default 1s
	"LookbackFrequency":    {time.Duration(0), 60 * time.Second, 120 * time.Second, 5 * time.Second, 7 * time.Second, 30 * time.Second, 2500 * time.Millisecond},
}

// (UpdateFrequency, LookbackFrequency) pairs of a windowed-throughput base definition;
// the second half are lookback windows that are not a whole multiple of the update
// interval (dynsampler-go floors them).
var c12windowPairs = [][2]time.Duration{
	{0, 0}, {10 * time.Second, 60 * time.Second}, {20 * time.Second, 120 * time.Second}, {10 * time.Second, 0}, {0, 60 * time.Second},
	{2 * time.Second, 5 * time.Second}, {3 * time.Second, 7 * time.Second}, {7 * time.Second, 30 * time.Second}, {0, 2500 * time.Millisecond}, {20 * time.Second, 30 * time.Second},
}

// c12valid: a lookback window, when given, is not shorter than the update interval.
func c12valid(d *c12def) bool {
	w, ok := d.Cfg.(*config.WindowedThroughputSamplerConfig)
	if !ok || w.LookbackFrequency == 0 {
		return true
	}
	u := time.Duration(w.UpdateFrequency)
	if u == 0 {
		u = time.Second
	}
	return time.Duration(w.LookbackFrequency) >= u
}

var c12ratefields = map[string]bool{"SampleRate": true, "GoalSampleRate": true, "GoalThroughputPerSec": true}

var c12fieldpool = []string{"service.name", "http.method", "status", "root.url", "region"}

func c12fieldNames(kind string) []string {
	t := reflect.TypeOf(c12newCfg(kind)).Elem()
	var out []string
	for i := 0; i < t.NumField(); i++ {
		out = append(out, t.Field(i).Name)
	}
	return out
}

func c12set(cfg any, field string, val any) {
	f := reflect.ValueOf(cfg).Elem().FieldByName(field)
	f.Set(reflect.ValueOf(val).Convert(f.Type()))
}

func c12get(cfg any, field string) any {
	return reflect.ValueOf(cfg).Elem().FieldByName(field).Interface()
}

func c12fields(cfg any) []string { return c12get(cfg, "FieldList").([]string) }

func c12clone(d *c12def) *c12def {
	n := c12newCfg(d.Kind)
	reflect.ValueOf(n).Elem().Set(reflect.ValueOf(d.Cfg).Elem())
	c12set(n, "FieldList", append([]string(nil), c12fields(d.Cfg)...))
	return &c12def{Kind: d.Kind, Cfg: n}
}

func c12genFieldList(rng *verifkit.Rand) []string {
	p := rng.Perm(len(c12fieldpool))
	n := rng.Range(1, 3)
	out := make([]string, 0, n)
	for _, i := range p[:n] {
		out = append(out, c12fieldpool[i])
	}
	return out
}

func c12genDef(rng *verifkit.Rand, kind string) *c12def {
	cfg := c12newCfg(kind)
	for _, f := range c12fieldNames(kind) {
		if f == "FieldList" {
			c12set(cfg, f, c12genFieldList(rng))
			continue
		}
		c := c12values[f]
		c12set(cfg, f, c[rng.Intn(len(c))])
	}
	if kind == "windowedthroughput" {
		pr := c12windowPairs[rng.Intn(len(c12windowPairs))]
		c12set(cfg, "UpdateFrequency", pr[0])
		c12set(cfg, "LookbackFrequency", pr[1])
	}
	return &c12def{Kind: kind, Cfg: cfg}
}

// c12pair returns a base definition and a variant standing in the given relation:
// "identical", "kind", "fieldlist-order", "fieldlist-tokenisation", or the name of
// one configuration field that is the only thing that differs.
func c12pair(rng *verifkit.Rand, kind, rel string) (*c12def, *c12def) {
	base := c12genDef(rng, kind)
	switch rel {
	case "identical":
		return base, c12clone(base)
	case "kind":
		var others []string
		for _, k := range c12kinds {
			if k != kind {
				others = append(others, k)
			}
		}
		v := c12genDef(rng, others[rng.Intn(len(others))])
		c12set(v.Cfg, "FieldList", append([]string(nil), c12fields(base.Cfg)...))
		// same numeric rate/goal where the candidate sets allow it
		for f := range c12ratefields {
			for g := range c12ratefields {
				if reflect.ValueOf(base.Cfg).Elem().FieldByName(f).IsValid() && reflect.ValueOf(v.Cfg).Elem().FieldByName(g).IsValid() {
					c12set(v.Cfg, g, c12get(base.Cfg, f))
				}
			}
		}
		return base, v
	case "fieldlist-order":
		fl := c12fields(base.Cfg)
		for len(fl) < 2 {
			fl = c12genFieldList(rng)
		}
		c12set(base.Cfg, "FieldList", fl)
		v := c12clone(base)
		nf := append([]string(nil), fl...)
		for strings.Join(nf, "\x00") == strings.Join(fl, "\x00") {
			verifkit.Shuffle(rng, nf)
		}
		c12set(v.Cfg, "FieldList", nf)
		return base, v
	case "fieldlist-tokenisation":
		// a field name containing a space vs the two names it splits into
		fl := append(c12fields(base.Cfg), "a b")
		verifkit.Shuffle(rng, fl)
		c12set(base.Cfg, "FieldList", fl)
		v := c12clone(base)
		var nf []string
		for _, f := range fl {
			if f == "a b" {
				nf = append(nf, "a", "b")
			} else {
				nf = append(nf, f)
			}
		}
		c12set(v.Cfg, "FieldList", nf)
		if rng.Bool() {
			return v, base
		}
		return base, v
	case "fieldlist-root-prefix", "fieldlist-duplicate", "fieldlist-computed", "fieldlist-case", "fieldlist-space", "fieldlist-name-prefix":
		v := c12clone(base)
		c12set(v.Cfg, "FieldList", c12nearFieldList(rng, c12fields(base.Cfg), rel))
		if rng.Bool() {
			return v, base
		}
		return base, v
	case "FieldList":
		v := c12clone(base)
		fl := c12fields(base.Cfg)
		var absent []string
		for _, p := range c12fieldpool {
			found := false
			for _, f := range fl {
				found = found || f == p
			}
			if !found {
				absent = append(absent, p)
			}
		}
		nf := append([]string(nil), fl...)
		switch op := rng.Intn(3); {
		case op == 0 && len(nf) > 1: // drop one
			i := rng.Intn(len(nf))
			nf = append(nf[:i], nf[i+1:]...)
		case op == 1: // replace one
			nf[rng.Intn(len(nf))] = absent[rng.Intn(len(absent))]
		default: // add one
			nf = append(nf, absent[rng.Intn(len(absent))])
			verifkit.Shuffle(rng, nf)
		}
		c12set(v.Cfg, "FieldList", nf)
		return base, v
	default: // exactly one scalar field differs
		v := c12clone(base)
		cur := c12get(base.Cfg, rel)
		c := c12values[rel]
		for {
			x := c[rng.Intn(len(c))]
			f := reflect.ValueOf(v.Cfg).Elem().FieldByName(rel)
			nv := reflect.ValueOf(x).Convert(f.Type()).Interface()
			if !reflect.DeepEqual(nv, cur) {
				f.Set(reflect.ValueOf(nv))
				if c12valid(v) {
					break
				}
			}
		}
		return base, v
	}
}

// c12nearEqual: FieldList relations in which the two lists are different configurations
// that a careless canonicalisation could identify.
var c12nearEqual = []string{"fieldlist-root-prefix", "fieldlist-duplicate", "fieldlist-computed", "fieldlist-case", "fieldlist-space", "fieldlist-name-prefix"}

func c12nearFieldList(rng *verifkit.Rand, fl []string, class string) []string {
	nf := append([]string(nil), fl...)
	i := rng.Intn(len(nf))
	x := nf[i]
	switch class {
	case "fieldlist-root-prefix": // root.<name> vs <name>
		if strings.HasPrefix(x, config.RootPrefix) {
			nf[i] = strings.TrimPrefix(x, config.RootPrefix)
		} else {
			nf[i] = config.RootPrefix + x
		}
	case "fieldlist-duplicate": // [a] vs [a, a]
		nf = append(nf, x)
		verifkit.Shuffle(rng, nf)
	case "fieldlist-computed": // extra computed field
		nf = append(nf, string(config.NUM_DESCENDANTS))
		verifkit.Shuffle(rng, nf)
	case "fieldlist-case": // names differing by case only
		nf[i] = x[:len(x)-1] + strings.ToUpper(x[len(x)-1:])
	case "fieldlist-space": // surrounding space
		if rng.Bool() {
			nf[i] = x + " "
		} else {
			nf[i] = " " + x
		}
	case "fieldlist-name-prefix": // one name is a proper prefix of the other
		if rng.Bool() {
			nf[i] = x + "_code"
		} else {
			nf[i] = x[:len(x)-1]
		}
	default:
		panic("c12: near-equal class " + class)
	}
	return nf
}

// c12diff classifies how two definitions differ. empty result = configurations
// identical (up to FieldList order).
func c12diff(a, b *c12def) (classes []string, fields []string) {
	if a.Kind != b.Kind {
		return []string{"sampler-type"}, []string{"(type)"}
	}
	set := map[string]bool{}
	for _, f := range c12fieldNames(a.Kind) {
		x, y := c12get(a.Cfg, f), c12get(b.Cfg, f)
		if f == "FieldList" {
			xs := append([]string(nil), x.([]string)...)
			ys := append([]string(nil), y.([]string)...)
			sort.Strings(xs)
			sort.Strings(ys)
			if reflect.DeepEqual(xs, ys) {
				continue // same fields, at most another order
			}
			fields = append(fields, f)
			if strings.Join(xs, " ") == strings.Join(ys, " ") {
				set["fieldlist-tokenisation"] = true
			} else {
				set["fieldlist-content"] = true
			}
			continue
		}
		if reflect.DeepEqual(x, y) {
			continue
		}
		fields = append(fields, f)
		if c12ratefields[f] {
			set["rate-or-goal"] = true
		} else {
			set["tuning-field"] = true
		}
	}
	for c := range set {
		classes = append(classes, c)
	}
	sort.Strings(classes)
	return classes, fields
}

// ---- rules file model -------------------------------------------------------

type c12env struct {
	Name  string    `json:"name"`
	Top   *c12def   `json:"top,omitempty"`   // top-level dynsampler-backed sampler
	Rules []*c12def `json:"rules,omitempty"` // downstream samplers of a RulesBasedSampler (when Top == nil)
}

type c12file struct {
	Envs     []*c12env `json:"envs"`
	Default  *c12def   `json:"default,omitempty"`  // nil: __default__ is a DeterministicSampler
	Unlisted []string  `json:"unlisted,omitempty"` // names looked up that fall through to __default__
	built    map[string]*config.V2SamplerChoice
	rules    map[string][]*config.RulesBasedSamplerRule
}

func c12choice(d *c12def) (*config.V2SamplerChoice, *config.RulesBasedDownstreamSampler) {
	c := &config.V2SamplerChoice{}
	ds := &config.RulesBasedDownstreamSampler{}
	switch v := d.Cfg.(type) {
	case *config.DynamicSamplerConfig:
		c.DynamicSampler, ds.DynamicSampler = v, v
	case *config.EMADynamicSamplerConfig:
		c.EMADynamicSampler, ds.EMADynamicSampler = v, v
	case *config.TotalThroughputSamplerConfig:
		c.TotalThroughputSampler, ds.TotalThroughputSampler = v, v
	case *config.EMAThroughputSamplerConfig:
		c.EMAThroughputSampler, ds.EMAThroughputSampler = v, v
	case *config.WindowedThroughputSamplerConfig:
		c.WindowedThroughputSampler, ds.WindowedThroughputSampler = v, v
	}
	return c, ds
}

func (f *c12file) build() {
	f.built = map[string]*config.V2SamplerChoice{}
	f.rules = map[string][]*config.RulesBasedSamplerRule{}
	if f.Default != nil {
		f.built["__default__"], _ = c12choice(f.Default)
	} else {
		f.built["__default__"] = &config.V2SamplerChoice{DeterministicSampler: &config.DeterministicSamplerConfig{SampleRate: 1}}
	}
	for _, e := range f.Envs {
		if e.Top != nil {
			f.built[e.Name], _ = c12choice(e.Top)
			continue
		}
		rc := &config.RulesBasedSamplerConfig{}
		for i, d := range e.Rules {
			_, ds := c12choice(d)
			r := &config.RulesBasedSamplerRule{
				Name:       fmt.Sprintf("r%d", i),
				Conditions: []*config.RulesBasedSamplerCondition{{Field: "verif.rule", Operator: config.EQ, Value: fmt.Sprintf("r%d", i)}},
				Sampler:    ds,
			}
			rc.Rules = append(rc.Rules, r)
		}
		f.rules[e.Name] = rc.Rules
		f.built[e.Name] = &config.V2SamplerChoice{RulesBasedSampler: rc}
	}
}

func (f *c12file) names() []string {
	var out []string
	for _, e := range f.Envs {
		out = append(out, e.Name)
	}
	return append(out, f.Unlisted...)
}

// slots of an environment name: (rule index or -1, definition)
func (f *c12file) slots(name string) (rules []int, defs []*c12def) {
	for _, e := range f.Envs {
		if e.Name != name {
			continue
		}
		if e.Top != nil {
			return []int{-1}, []*c12def{e.Top}
		}
		for i, d := range e.Rules {
			rules = append(rules, i)
			defs = append(defs, d)
		}
		return
	}
	if f.Default != nil {
		return []int{-1}, []*c12def{f.Default}
	}
	return nil, nil
}

var c12placements = []string{"two-envs-top", "two-envs-default", "top-vs-downstream", "downstream-vs-downstream", "rules-prefix-like-name"}

func c12fillerRules(rng *verifkit.Rand, base *c12def, n int) []*c12def {
	var out []*c12def
	for i := 0; i < n; i++ {
		if base != nil && rng.Bool() {
			// another single-field variant of the same base
			fs := c12fieldNames(base.Kind)
			_, v := c12pairFrom(rng, base, fs[rng.Intn(len(fs))])
			out = append(out, v)
		} else {
			out = append(out, c12genDef(rng, c12kinds[rng.Intn(len(c12kinds))]))
		}
	}
	return out
}

// c12pairFrom derives a single-field variant from an existing base.
func c12pairFrom(rng *verifkit.Rand, base *c12def, field string) (*c12def, *c12def) {
	if field == "FieldList" {
		v := c12clone(base)
		nf := append(c12fields(base.Cfg), "extra.field")
		verifkit.Shuffle(rng, nf)
		if rng.Bool() {
			nf = c12nearFieldList(rng, c12fields(base.Cfg), c12nearEqual[rng.Intn(len(c12nearEqual))])
		}
		c12set(v.Cfg, "FieldList", nf)
		return base, v
	}
	v := c12clone(base)
	cur := c12get(base.Cfg, field)
	c := c12values[field]
	for {
		f := reflect.ValueOf(v.Cfg).Elem().FieldByName(field)
		nv := reflect.ValueOf(c[rng.Intn(len(c))]).Convert(f.Type()).Interface()
		if !reflect.DeepEqual(nv, cur) {
			f.Set(reflect.ValueOf(nv))
			if c12valid(v) {
				return base, v
			}
		}
	}
}

func c12genFile(rng *verifkit.Rand, kind, rel, placement string) *c12file {
	f := &c12file{}
	base, variant := c12pair(rng, kind, rel)
	mixin := func(focus []*c12def, fill []*c12def) []*c12def {
		all := append(append([]*c12def(nil), focus...), fill...)
		verifkit.Shuffle(rng, all)
		return all
	}
	switch placement {
	case "same-env":
		fb := base
		if rel == "fieldlist-tokenisation" {
			fb = nil // keep the tokenisation delta the only delta of every pair it occurs in
		}
		f.Envs = append(f.Envs, &c12env{Name: "env-x", Rules: mixin([]*c12def{base, variant}, c12fillerRules(rng, fb, rng.Intn(3)))})
	case "two-envs-top":
		f.Envs = append(f.Envs, &c12env{Name: "env-x", Top: base}, &c12env{Name: "env-y", Top: variant})
	case "two-envs-default":
		f.Default = base
		f.Unlisted = []string{"dflt-a", "dflt-b"}
		if rng.Bool() {
			f.Envs = append(f.Envs, &c12env{Name: "env-y", Top: variant})
		}
	case "top-vs-downstream":
		f.Envs = append(f.Envs, &c12env{Name: "env-x", Top: base},
			&c12env{Name: "env-y", Rules: mixin([]*c12def{variant}, c12fillerRules(rng, nil, rng.Intn(2)))})
	case "downstream-vs-downstream":
		f.Envs = append(f.Envs, &c12env{Name: "env-x", Rules: mixin([]*c12def{base}, c12fillerRules(rng, nil, rng.Intn(2)))},
			&c12env{Name: "env-y", Rules: mixin([]*c12def{variant}, c12fillerRules(rng, nil, rng.Intn(2)))})
	case "rules-prefix-like-name":
		// a dataset/environment whose name looks like the prefix used for downstream samplers of env-x
		f.Envs = append(f.Envs, &c12env{Name: "env-x", Rules: mixin([]*c12def{base}, c12fillerRules(rng, nil, rng.Intn(2)))},
			&c12env{Name: "rules:env-x:", Top: variant})
	default:
		panic("c12: placement " + placement)
	}
	// unrelated filler environments
	for i, n := 0, rng.Intn(3); i < n; i++ {
		e := &c12env{Name: fmt.Sprintf("fill-%d", i)}
		if rng.Bool() {
			e.Top = c12genDef(rng, c12kinds[rng.Intn(len(c12kinds))])
		} else {
			e.Rules = c12fillerRules(rng, nil, rng.Range(1, 2))
		}
		f.Envs = append(f.Envs, e)
	}
	verifkit.Shuffle(rng, f.Envs)
	f.build()
	return f
}

// ---- workers ----------------------------------------------------------------

type c12op struct {
	Op   string `json:"op"` // get | barrier
	Env  string `json:"env,omitempty"`
	Rule int    `json:"rule,omitempty"`
}

type c12worker struct {
	id    int
	cache map[string]Sampler
}

var c12mockCfgForPayload = &config.MockConfig{}

func c12trace(rule int, variety int) *types.Trace {
	tr := &types.Trace{TraceID: fmt.Sprintf("t%d", variety)}
	data := map[string]any{
		"verif.rule": fmt.Sprintf("r%d", rule), "service.name": fmt.Sprintf("svc%d", variety%3), "http.method": "GET",
		"status": 200 + variety%2, "url": "/x", "region": "r", "a b": "ab", "a": "a", "b": "b", "extra.field": 1,
	}
	sp := &types.Span{TraceID: tr.TraceID, IsRoot: true, Event: &types.Event{Data: types.NewPayload(c12mockCfgForPayload, data)}}
	tr.RootSpan = sp
	tr.AddSpan(sp)
	return tr
}

// run mimics CollectorWorker.makeDecision's sampler lookup and the reload case of
// the worker loop.
func (w *c12worker) run(f *SamplerFactory, ops []c12op, reloaded <-chan struct{}, atBarrier func()) {
	for i, op := range ops {
		switch op.Op {
		case "get":
			s, ok := w.cache[op.Env]
			if !ok {
				s = f.GetSamplerImplementationForKey(op.Env)
				w.cache[op.Env] = s
			}
			if s != nil {
				s.GetSampleRate(c12trace(op.Rule, i))
			}
		case "barrier":
			atBarrier()
			<-reloaded
			clear(w.cache)
		}
	}
}

type c12handle struct {
	Worker int    `json:"worker"`
	Env    string `json:"env"`
	Rule   int    `json:"rule"` // -1 top level
	def    *c12def
	s      Sampler
	dyn    dynsampler.Sampler
	prefix string
	class  int
}

func (h *c12handle) requests() int64 {
	return h.dyn.GetMetrics(h.prefix)[h.prefix+"request_count"]
}

type c12witness struct {
	File     *c12file           `json:"rules_file"`
	Workers  int                `json:"workers"`
	Ops      map[string][]c12op `json:"ops_per_worker"`
	Phase    int                `json:"phase"`
	Reloaded bool               `json:"reload_before_phase"`
	A        *c12handle         `json:"a,omitempty"`
	B        *c12handle         `json:"b,omitempty"`
	DefA     *c12def            `json:"def_a,omitempty"`
	DefB     *c12def            `json:"def_b,omitempty"`
	Differ   []string           `json:"differing_fields,omitempty"`
	Note     string             `json:"note,omitempty"`
}

func TestVerif_C12(t *testing.T) {
	run := verifkit.Start(t, "C12", "sample")
	defer run.Finish()
	run.Rule("each case = a rules file built around one pair of sampler definitions (kind x relation enumerated round-robin: identical, exactly one differing field for every field of every dynsampler-backed sampler config, FieldList order, FieldList tokenisation, FieldList near-equal classes root.-prefix/duplicate entry/extra computed field/case/surrounding space/name prefix, different sampler type) placed in one environment (two rules of a RulesBasedSampler) or across environments (top/top, both via __default__, top vs downstream, downstream vs downstream, name resembling the downstream prefix), plus filler definitions; 1-16 goroutine workers create samplers lazily in PRNG order through per-worker caches, 1-3 phases with reloads (config swap + ClearDynsamplers + worker cache clear) racing the workers; non-trivial = at least one must-isolate or must-share pair was decided; distinct = placement/kind/relation/reload")
	run.Assume("InMemCollector reload = SamplerFactory.ClearDynsamplers() followed by every worker clearing its sampler cache (collect.go reloadConfigs / collector_worker.go)")
	run.Assume("dynsampler-go request_count changes only through GetSampleRate/GetSampleRateMulti")

	// harness completeness: every field of every config has a generator
	type combo struct{ kind, rel string }
	var combos []combo
	for _, k := range c12kinds {
		for _, f := range c12fieldNames(k) {
			if _, ok := c12values[f]; !ok && f != "FieldList" {
				t.Fatalf("C12 harness out of date: %s config field %s has no value generator", k, f)
			}
			combos = append(combos, combo{k, f})
		}
		for _, r := range append([]string{"identical", "fieldlist-order", "fieldlist-tokenisation", "kind"}, c12nearEqual...) {
			combos = append(combos, combo{k, r})
		}
	}
	run.Count("kind_relation_combos", int64(len(combos)))

	rounds := run.N(4, 60)
	run.Cases("pairs", rounds*len(combos), func(i int, rng *verifkit.Rand) {
		cb := combos[i%len(combos)]
		placementClass := "same-env"
		if (i/len(combos))%2 == 1 {
			placementClass = "cross-env"
		}
		c12case(run, rng, cb.kind, cb.rel, placementClass, i < 2)
	})
}

func c12case(run *verifkit.Run, rng *verifkit.Rand, kind, rel, placementClass string, sample bool) {
	pick := func() string {
		if placementClass == "same-env" {
			return "same-env"
		}
		return c12placements[rng.Intn(len(c12placements))]
	}
	relFor := func(placement string) string {
		// across environments the identical definition is the demanding case
		if placement != "same-env" && rng.Chance(0.6) {
			return "identical"
		}
		return rel
	}
	placement := pick()
	file := c12genFile(rng, kind, relFor(placement), placement)

	mc := &config.MockConfig{Samplers: file.built}
	factory := &SamplerFactory{Config: mc, Logger: &logger.NullLogger{}, Metrics: &metrics.NullMetrics{}}
	if err := factory.Start(); err != nil {
		run.Inconclusive("factory.Start: " + err.Error())
		return
	}
	defer factory.Stop()

	nworkers := verifkit.Pick(rng, 1, 2, 2, 3, 4, 8, 16)
	workers := make([]*c12worker, nworkers)
	for i := range workers {
		workers[i] = &c12worker{id: i, cache: map[string]Sampler{}}
	}
	phases := rng.Range(1, 3)
	for ph := 0; ph < phases; ph++ {
		reload := ph > 0 && rng.Chance(0.75)
		if reload {
			placement = pick()
			file = c12genFile(rng, kind, relFor(placement), placement)
		}
		names := file.names()
		// per worker op list
		opsPer := make([][]c12op, nworkers)
		for w := range opsPer {
			var ops []c12op
			for _, n := range names {
				if !rng.Chance(0.7) {
					continue
				}
				rules, _ := file.slots(n)
				for k, kk := 0, rng.Range(1, 3); k < kk; k++ {
					r := 0
					if len(rules) > 0 {
						r = rules[rng.Intn(len(rules))]
					}
					ops = append(ops, c12op{Op: "get", Env: n, Rule: r})
				}
			}
			verifkit.Shuffle(rng, ops)
			if reload {
				at := rng.Intn(len(ops) + 1)
				ops = append(ops[:at:at], append([]c12op{{Op: "barrier"}}, ops[at:]...)...)
			}
			opsPer[w] = ops
		}
		// make sure every name is created by at least one worker after the barrier
		for _, n := range names {
			w := rng.Intn(nworkers)
			rules, _ := file.slots(n)
			r := 0
			if len(rules) > 0 {
				r = rules[rng.Intn(len(rules))]
			}
			opsPer[w] = append(opsPer[w], c12op{Op: "get", Env: n, Rule: r})
		}

		reloaded := make(chan struct{})
		var atBarrier sync.WaitGroup
		if reload {
			atBarrier.Add(nworkers)
		}
		sequential := rng.Chance(0.3)
		var wg sync.WaitGroup
		for w := range workers {
			wg.Add(1)
			go func(w int) {
				defer wg.Done()
				workers[w].run(factory, opsPer[w], reloaded, atBarrier.Done)
			}(w)
		}
		if reload {
			if sequential {
				atBarrier.Wait()
			}
			mc.Mux.Lock()
			mc.Samplers = file.built
			mc.Mux.Unlock()
			c12FactoryReload(factory)
			close(reloaded)
		}
		wg.Wait()
		run.Count("phases", 1)
		if reload {
			run.Count("reloads", 1)
		}

		wit := func() *c12witness {
			ops := map[string][]c12op{}
			for w, o := range opsPer {
				ops[fmt.Sprintf("w%d", w)] = o
			}
			return &c12witness{File: file, Workers: nworkers, Ops: ops, Phase: ph, Reloaded: reload}
		}
		decided := c12oracle(run, file, workers, wit)
		if decided > 0 {
			run.Nontrivial(fmt.Sprintf("%s/%s/%s/reload=%v/multiworker=%v", placement, kind, rel, reload, nworkers > 1))
		}
		if sample && ph == 0 {
			run.Sample(map[string]any{"placement": placement, "kind": kind, "relation": rel, "workers": nworkers, "rules_file": file})
		}
	}
}

// c12oracle inspects the quiescent state; returns the number of pairs it decided.
func c12oracle(run *verifkit.Run, file *c12file, workers []*c12worker, wit func() *c12witness) int {
	var hs []*c12handle
	for _, w := range workers {
		names := make([]string, 0, len(w.cache))
		for n := range w.cache {
			names = append(names, n)
		}
		sort.Strings(names)
		for _, n := range names {
			s := w.cache[n]
			rules, defs := file.slots(n)
			for i, r := range rules {
				target := s
				if r >= 0 {
					target = c12Downstream(s, file.rules[n][r])
				}
				if target == nil {
					x := wit()
					x.Note = fmt.Sprintf("worker %d env %q rule %d: no sampler", w.id, n, r)
					run.Violation("C12/harness/sampler-missing", "a configured definition produced no sampler", x)
					continue
				}
				dyn, prefix, ok := c12Backing(target)
				if !ok || dyn == nil {
					x := wit()
					x.Note = fmt.Sprintf("worker %d env %q rule %d: %T is not dynsampler-backed", w.id, n, r, target)
					run.Violation("C12/harness/sampler-type-unexpected", "sampler of unexpected type for definition", x)
					continue
				}
				hs = append(hs, &c12handle{Worker: w.id, Env: n, Rule: r, def: defs[i], s: target, dyn: dyn, prefix: prefix})
			}
		}
	}
	run.Count("sampler_handles", int64(len(hs)))
	// identity classes
	classOf := map[dynsampler.Sampler]int{}
	var reps []*c12handle
	for _, h := range hs {
		c, ok := classOf[h.dyn]
		if !ok {
			c = len(reps)
			classOf[h.dyn] = c
			reps = append(reps, h)
		}
		h.class = c
	}
	run.Count("distinct_dynsamplers", int64(len(reps)))

	// behavioural cross-check: feed the representative of each class, watch everyone
	const k = 3
	for _, rep := range reps {
		before := make([]int64, len(hs))
		for i, h := range hs {
			before[i] = h.requests()
		}
		for j := 0; j < k; j++ {
			rule := rep.Rule
			if rule < 0 {
				rule = 0
			}
			rep.s.GetSampleRate(c12trace(rule, j))
		}
		for i, h := range hs {
			d := h.requests() - before[i]
			same := h.class == rep.class
			if (same && d != k) || (!same && d != 0) {
				x := wit()
				x.A, x.B = rep, h
				x.Note = fmt.Sprintf("fed %d traces through A; request_count seen through B moved by %d; same object by identity: %v", k, d, same)
				run.Violation("C12/identity-vs-behaviour-mismatch", "state coupling between two samplers disagrees with the identity of their dynsampler", x)
			}
		}
		run.Count("behavioural_observations", int64(len(hs)))
	}

	decided := 0
	// (1) every worker's sampler for the same slot is backed by one object
	type slot struct {
		env  string
		rule int
	}
	bySlot := map[slot][]*c12handle{}
	var slots []slot
	for _, h := range hs {
		s := slot{h.Env, h.Rule}
		if _, ok := bySlot[s]; !ok {
			slots = append(slots, s)
		}
		bySlot[s] = append(bySlot[s], h)
	}
	for _, s := range slots {
		g := bySlot[s]
		for _, h := range g[1:] {
			decided++
			run.Count("same_slot_worker_pairs", 1)
			if h.class != g[0].class {
				x := wit()
				x.A, x.B, x.DefA = g[0], h, h.def
				lvl := "top-level"
				if s.rule >= 0 {
					lvl = "downstream"
				}
				run.Violation("C12/workers-diverge/"+lvl, fmt.Sprintf("workers %d and %d hold samplers for the same definition (%s rule %d) backed by different rate-tracking state", g[0].Worker, h.Worker, s.env, s.rule), x)
				break
			}
		}
	}
	// (2) isolation between slots
	for i := 0; i < len(slots); i++ {
		for j := i + 1; j < len(slots); j++ {
			a, b := bySlot[slots[i]][0], bySlot[slots[j]][0]
			shared := false
			for _, x := range bySlot[slots[i]] {
				for _, y := range bySlot[slots[j]] {
					if x.class == y.class {
						shared, a, b = true, x, y
					}
				}
			}
			if a.Env != b.Env {
				decided++
				run.Count("cross_environment_pairs", 1)
				if shared {
					x := wit()
					x.A, x.B, x.DefA, x.DefB = a, b, a.def, b.def
					cls := "ordinary-names"
					if a.Env == "rules:"+b.Env+":" || b.Env == "rules:"+a.Env+":" {
						cls = "name-resembles-downstream-prefix"
					}
					run.Violation("C12/shared-across-environments/"+cls, fmt.Sprintf("samplers of %q and %q are backed by the same rate-tracking state", a.Env, b.Env), x)
				}
				continue
			}
			classes, fields := c12diff(a.def, b.def)
			if len(classes) == 0 {
				if shared {
					run.Count("identical_definitions_shared", 1)
				} else {
					run.Count("identical_definitions_not_shared", 1)
				}
				continue
			}
			decided++
			run.Count("same_environment_differing_pairs", 1)
			if shared {
				x := wit()
				x.A, x.B, x.DefA, x.DefB, x.Differ = a, b, a.def, b.def, fields
				run.Violation("C12/shared-between-definitions/"+strings.Join(classes, "+"),
					fmt.Sprintf("two %s/%s definitions of %q differing in %v are backed by the same rate-tracking state", a.def.Kind, b.def.Kind, a.Env, fields), x)
			}
		}
	}
	return decided
}
