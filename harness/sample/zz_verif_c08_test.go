//go:build verif

package sample

import (
	"crypto/sha1"
	"encoding/binary"
	"fmt"
	"math"
	"regexp"
	"sort"
	"strconv"
	"strings"
	"testing"

	"github.com/honeycombio/refinery/config"
	"github.com/honeycombio/refinery/internal/verifkit"
	"github.com/honeycombio/refinery/logger"
	"github.com/honeycombio/refinery/metrics"
	"github.com/honeycombio/refinery/types"
)

// C08: the rules sampler follows the documented rule semantics.
//
// An independent executable reading of rules.md / rules_conditions.md (c08eval*) runs
// beside the real RulesBasedSampler on generated (rule list, trace) pairs. The model is
// three-valued: T (the documents say the condition/rule matches), F (they say it does
// not), U (the documents are silent or can be read both ways). From the per-rule
// verdicts it derives the SET of rules the sampler may apply ("first T, or any U before
// it, or 'no rule matched' if no T"); the rule the real sampler applied (identified by the
// rule name in the returned reason) must be in that set, and rate/keep must fit the
// applied rule's action where that is deterministic.
//
// The model never calls the matcher code of package config or sample.compare.

// ---- adapters to the code under test ---------------------------------------

var c08cfg = &config.MockConfig{}

func c08RealTrace(tr c08trace, id string) *types.Trace {
	t := &types.Trace{TraceID: id}
	for i, sp := range tr.Spans {
		m := make(map[string]any, len(sp))
		for k, v := range sp {
			m[k] = v
		}
		ann, _ := m[c08annotationKey].(string)
		delete(m, c08annotationKey)
		s := &types.Span{TraceID: id, Event: &types.Event{Data: types.NewPayload(c08cfg, m)}}
		s.Data.MetaAnnotationType = ann // span events and span links are trace elements of their own
		t.AddSpan(s)
		if i == tr.Root {
			s.IsRoot = true
			t.RootSpan = s
		}
	}
	return t
}

func c08RealConfig(rules []c08rule) *config.RulesBasedSamplerConfig {
	cfg := &config.RulesBasedSamplerConfig{}
	for _, r := range rules {
		rr := &config.RulesBasedSamplerRule{Name: r.Name, Scope: r.Scope, Drop: r.Drop, SampleRate: r.SampleRate}
		if len(r.Conds) > 0 {
			rr.Conditions = make([]*config.RulesBasedSamplerCondition, 0, len(r.Conds))
		}
		for _, c := range r.Conds {
			cc := &config.RulesBasedSamplerCondition{Operator: c.Op, Value: c.Value, Datatype: c.Datatype}
			if len(c.Fields) == 1 && !c.AsList {
				cc.Field = c.Fields[0]
			} else if len(c.Fields) > 0 {
				cc.Fields = append([]string(nil), c.Fields...)
			}
			rr.Conditions = append(rr.Conditions, cc)
		}
		switch r.Down {
		case "deterministic":
			rr.Sampler = &config.RulesBasedDownstreamSampler{DeterministicSampler: &config.DeterministicSamplerConfig{SampleRate: r.DownRate}}
		case "dynamic":
			rr.Sampler = &config.RulesBasedDownstreamSampler{DynamicSampler: &config.DynamicSamplerConfig{SampleRate: int64(r.DownRate), FieldList: r.downFields()}}
		}
		cfg.Rules = append(cfg.Rules, rr)
	}
	return cfg
}

type c08real struct {
	factory *SamplerFactory
}

func c08NewReal() *c08real {
	f := &SamplerFactory{Logger: &logger.NullLogger{}, Metrics: &metrics.NullMetrics{}}
	if err := f.Start(); err != nil {
		panic(err)
	}
	return &c08real{factory: f}
}

func (r *c08real) stop() { r.factory.Stop() }

// decide runs the real sampler, freshly built from the rule list.
func (r *c08real) decide(rules []c08rule, tr c08trace, id string) (rate uint, keep bool, reason, key string) {
	s := &RulesBasedSampler{Config: c08RealConfig(rules), Logger: &logger.NullLogger{}, Metrics: &metrics.NullMetrics{}, SamplerFactory: r.factory}
	if err := s.Start(); err != nil {
		panic(fmt.Sprintf("verif harness: RulesBasedSampler.Start: %v", err))
	}
	return s.GetSampleRate(c08RealTrace(tr, id))
}

// standaloneDynamicKey is what a DynamicSampler with the downstream's configuration
// answers for the trace when asked directly.
func c08StandaloneDynamicKey(rate int, fields []string, tr c08trace, id string) string {
	d := &DynamicSampler{Config: &config.DynamicSamplerConfig{SampleRate: int64(rate), FieldList: fields}, Logger: &logger.NullLogger{}, Metrics: &metrics.NullMetrics{}}
	if err := d.Start(); err != nil {
		panic(err)
	}
	defer d.dynsampler.Stop()
	_, _, _, key := d.GetSampleRate(c08RealTrace(tr, id))
	return key
}

// ---- case description --------------------------------------------------------

type c08span map[string]any

type c08trace struct {
	Spans []c08span
	Root  int  // -1: no root span
	Big   bool // field values are large neighbouring integers (64-bit ids, ns timestamps)
}

type c08cond struct {
	Fields   []string
	AsList   bool // written as `Fields:` even when there is one name
	Op       string
	Value    any
	Datatype string
}

type c08rule struct {
	Name       string
	Scope      string
	Conds      []c08cond
	Drop       bool
	SampleRate int
	Down       string // "", "deterministic", "dynamic"
	DownRate   int
	DownFields []string // dynamic downstream FieldList; nil = {"f0","f1"}
}

func (r c08rule) downFields() []string {
	if r.DownFields == nil {
		return []string{"f0", "f1"}
	}
	return r.DownFields
}

func c08show(v any) string {
	switch x := v.(type) {
	case nil:
		return "nil"
	case string:
		return strconv.Quote(x)
	case []any:
		parts := make([]string, len(x))
		for i, e := range x {
			parts[i] = c08show(e)
		}
		return "[" + strings.Join(parts, ", ") + "]"
	default:
		return fmt.Sprintf("%T(%v)", v, v)
	}
}

func (c c08cond) String() string {
	f := ""
	switch {
	case len(c.Fields) == 0:
	case len(c.Fields) == 1 && !c.AsList:
		f = "Field=" + c.Fields[0] + " "
	default:
		f = "Fields=[" + strings.Join(c.Fields, ",") + "] "
	}
	dt := ""
	if c.Datatype != "" {
		dt = " Datatype=" + c.Datatype
	}
	return fmt.Sprintf("{%sOperator=%s Value=%s%s}", f, c.Op, c08show(c.Value), dt)
}

func (r c08rule) witness() map[string]any {
	conds := make([]string, len(r.Conds))
	for i, c := range r.Conds {
		conds[i] = c.String()
	}
	w := map[string]any{"name": r.Name, "scope": r.Scope, "conditions": conds}
	switch {
	case r.Down != "":
		w["action"] = fmt.Sprintf("downstream %s rate %d (Drop=%v SampleRate=%d)", r.Down, r.DownRate, r.Drop, r.SampleRate)
		if r.Down == "dynamic" {
			w["action"] = fmt.Sprintf("downstream dynamic rate %d FieldList %v (Drop=%v SampleRate=%d)", r.DownRate, r.downFields(), r.Drop, r.SampleRate)
		}
	case r.Drop:
		w["action"] = fmt.Sprintf("Drop (SampleRate=%d)", r.SampleRate)
	default:
		w["action"] = fmt.Sprintf("SampleRate %d", r.SampleRate)
	}
	return w
}

func (t c08trace) witness() any {
	spans := make([]string, len(t.Spans))
	for i, sp := range t.Spans {
		keys := make([]string, 0, len(sp))
		for k := range sp {
			keys = append(keys, k)
		}
		sort.Strings(keys)
		var b strings.Builder
		if i == t.Root {
			b.WriteString("ROOT ")
		}
		for _, k := range keys {
			fmt.Fprintf(&b, "%s=%s ", k, c08show(sp[k]))
		}
		spans[i] = strings.TrimSpace(b.String())
	}
	return spans
}

// ---- the reference model -----------------------------------------------------

type c08tri int8

const (
	c08F c08tri = iota
	c08T
	c08U
)

func (t c08tri) String() string { return [...]string{"no-match", "match", "unspecified"}[t] }

func c08b(b bool) c08tri {
	if b {
		return c08T
	}
	return c08F
}

func c08not(t c08tri) c08tri {
	switch t {
	case c08T:
		return c08F
	case c08F:
		return c08T
	}
	return c08U
}

func c08and(ts ...c08tri) c08tri {
	r := c08T
	for _, t := range ts {
		if t == c08F {
			return c08F
		}
		if t == c08U {
			r = c08U
		}
	}
	return r
}

func c08or(ts ...c08tri) c08tri {
	r := c08F
	for _, t := range ts {
		if t == c08T {
			return c08T
		}
		if t == c08U {
			r = c08U
		}
	}
	return r
}

const c08virtualDescendants = "?.NUM_DESCENDANTS"

// span map key that makes the element a span event ("span_event") or a span link ("link")
const c08annotationKey = "meta.annotation_type"

func c08annotations(tr c08trace) int {
	n := 0
	for _, sp := range tr.Spans {
		if _, ok := sp[c08annotationKey]; ok {
			n++
		}
	}
	return n
}

func c08isVirtual(c c08cond) bool {
	return len(c.Fields) == 1 && !c.AsList && c.Fields[0] == c08virtualDescendants
}

// c08extract: "The fields are checked in the order defined here, and the first named
// field that contains a value will be used"; "root." reads the root span; "If a root.
// prefix is present on a field, but the root span is not on the trace, that field will be
// skipped".
func c08extract(tr c08trace, span int, c c08cond) (val any, present bool, rootSkipped bool) {
	if c08isVirtual(c) {
		return int64(len(tr.Spans)), true, false
	}
	for _, f := range c.Fields {
		if strings.HasPrefix(f, "root.") {
			if tr.Root < 0 {
				rootSkipped = true
				continue
			}
			if v, ok := tr.Spans[tr.Root][f[len("root."):]]; ok {
				return v, true, rootSkipped
			}
			continue
		}
		if v, ok := tr.Spans[span][f]; ok {
			return v, true, rootSkipped
		}
	}
	return nil, false, rootSkipped
}

func c08absentEverywhere(tr c08trace, c c08cond) bool {
	if c08isVirtual(c) {
		return false
	}
	for i := range tr.Spans {
		if _, present, _ := c08extract(tr, i, c); present {
			return false
		}
	}
	return true
}

// operator classes for which the documents do not say what a span lacking the field
// contributes while another span has it (DESIGN §2 C08).
func c08negativeOrCoerced(c c08cond) bool {
	switch c.Op {
	case "!=", "does-not-contain", "not-in":
		return true
	case "starts-with", "contains", "matches":
		return true
	case "in":
		return c.Datatype == "" || c.Datatype == "string"
	case "=", "<", "<=", ">", ">=":
		return c.Datatype == "string"
	}
	return false
}

var (
	// decimal text, zero-padded or with an explicit sign: "010" is ten, "+5" is five
	c08reInt = regexp.MustCompile(`^[+-]?[0-9]{1,15}$`)
	c08reDec = regexp.MustCompile(`^[+-]?[0-9]{1,15}\.[0-9]{1,6}$`)
)

// a string no number syntax could mean: it has a letter that is neither a hex digit nor
// part of inf/nan/exponent/prefix spellings, or a path/colon character.
func c08clearlyNotNumber(s string) bool {
	return strings.ContainsAny(strings.ToLower(s), "ghjklmoqrsuvwz/:")
}

// c08str: the string a value is coerced to, and whether every reasonable rendering agrees.
func c08str(v any) (string, bool) {
	switch x := v.(type) {
	case string:
		return x, true
	case int:
		return strconv.Itoa(x), true
	case int64:
		return strconv.FormatInt(x, 10), true
	case bool:
		if x {
			return "true", true
		}
		return "false", true
	case float64:
		// 1.5 prints as "1.5" everywhere; 200.0 ("200" or "200.0"?), 1e21, 1e-7 do not.
		if x != math.Trunc(x) && math.Abs(x) < 1e15 && math.Abs(x) >= 1e-4 {
			return strconv.FormatFloat(x, 'f', -1, 64), true
		}
	}
	return "", false
}

// c08int: Datatype int. (n, T) converts; (_, F) conversion error; (_, U) unclear.
func c08int(v any) (int64, c08tri) {
	switch x := v.(type) {
	case int:
		return int64(x), c08T
	case int64:
		return x, c08T
	case float64:
		if math.IsNaN(x) || math.IsInf(x, 0) || math.Abs(x) >= 1<<53 {
			return 0, c08U
		}
		if x >= 0 || x == math.Trunc(x) {
			return int64(x), c08T // "1.5 gets converted to 1"
		}
		return 0, c08U // -1.5: truncation or floor?
	case string:
		if c08reInt.MatchString(x) {
			n, _ := strconv.ParseInt(x, 10, 64)
			return n, c08T
		}
		if c08clearlyNotNumber(x) {
			return 0, c08F
		}
	}
	return 0, c08U
}

func c08float(v any) (float64, c08tri) {
	switch x := v.(type) {
	case int:
		if x > 1<<53 || x < -(1<<53) {
			return 0, c08U
		}
		return float64(x), c08T
	case int64:
		if x > 1<<53 || x < -(1<<53) {
			return 0, c08U
		}
		return float64(x), c08T
	case float64:
		if math.IsNaN(x) {
			return 0, c08U
		}
		return x, c08T
	case string:
		if c08reInt.MatchString(x) || c08reDec.MatchString(x) {
			f, _ := strconv.ParseFloat(x, 64)
			return f, c08T
		}
		if c08clearlyNotNumber(x) {
			return 0, c08F
		}
	}
	return 0, c08U
}

// c08spanBool: "Span values, for historical reasons, interpret true/false and 1/0 as
// boolean, and all other values are considered to be false."
func c08spanBool(v any) (bool, bool) {
	switch x := v.(type) {
	case bool:
		return x, true
	case string:
		switch x {
		case "true", "1":
			return true, true
		case "false", "0":
			return false, true
		}
		switch strings.ToLower(x) {
		case "true", "false", "t", "f": // other spellings of true/false: unclear
			return false, false
		}
		return false, true
	case int64:
		return x == 1, true
	case int:
		return x == 1, true
	case float64:
		if x == 1 || x == 0 {
			return false, false // is 1.0 "1"?
		}
		return false, true
	}
	return false, false
}

func c08condBool(v any) (bool, bool) {
	switch x := v.(type) {
	case bool:
		return x, true
	case string:
		if x == "true" {
			return true, true
		}
		if x == "false" {
			return false, true
		}
	}
	return false, false
}

func c08cmpOp(op string, cmp int) bool {
	switch op {
	case "=":
		return cmp == 0
	case "!=":
		return cmp != 0
	case "<":
		return cmp < 0
	case "<=":
		return cmp <= 0
	case ">":
		return cmp > 0
	case ">=":
		return cmp >= 0
	}
	panic("verif harness: not a comparison operator: " + op)
}

func c08cmpInt(a, b int64) int {
	switch {
	case a < b:
		return -1
	case a > b:
		return 1
	}
	return 0
}

func c08cmpFloat(a, b float64) int {
	switch {
	case a < b:
		return -1
	case a > b:
		return 1
	}
	return 0
}

func c08isNum(v any) bool {
	switch v.(type) {
	case int, int64, float64:
		return true
	}
	return false
}

// c08untyped: "If the Datatype parameter is not specified, then Refinery determines the
// type of the incoming span value. If the value is numeric or boolean, it attempts to
// convert the Value parameter to the same type. If the span value is a string, the Value
// parameter must also be a string or the comparison will fail."
func c08untyped(op string, cv, sv any) c08tri {
	if sv == nil || cv == nil {
		return c08U
	}
	switch s := sv.(type) {
	case string:
		c, ok := cv.(string)
		if !ok {
			if op == "!=" {
				return c08U // "the comparison will fail": is a failed != a match?
			}
			return c08F
		}
		return c08b(c08cmpOp(op, strings.Compare(s, c)))
	case bool:
		c, ok := cv.(bool)
		if !ok {
			return c08U // "attempts to convert"
		}
		if op == "=" || op == "!=" {
			return c08b((s == c) == (op == "="))
		}
		return c08U // ordering of booleans is not documented
	case int64, float64:
		if !c08isNum(cv) {
			return c08U // "attempts to convert" a string/bool Value to a number
		}
		// reading A: compare the two numbers as numbers
		var a c08tri
		si, sIsInt := sv.(int64)
		var ci int64
		cIsInt := false
		switch c := cv.(type) {
		case int:
			ci, cIsInt = int64(c), true
		case int64:
			ci, cIsInt = c, true
		}
		if sIsInt && cIsInt {
			a = c08b(c08cmpOp(op, c08cmpInt(si, ci)))
			return a
		}
		sf, ok1 := c08float(sv)
		cf, ok2 := c08float(cv)
		if ok1 != c08T || ok2 != c08T {
			return c08U
		}
		a = c08b(c08cmpOp(op, c08cmpFloat(sf, cf)))
		// reading B: "convert the Value parameter to the same type" as the span value
		if sIsInt {
			cAsInt, ok := c08int(cv)
			if ok != c08T {
				return c08U
			}
			if b := c08b(c08cmpOp(op, c08cmpInt(si, cAsInt))); b != a {
				return c08U
			}
		}
		return a
	}
	return c08U
}

// c08present evaluates one condition on a value that exists.
func c08present(c c08cond, sv any) c08tri {
	switch c.Op {
	case "=", "!=", "<", "<=", ">", ">=":
		switch c.Datatype {
		case "":
			return c08untyped(c.Op, c.Value, sv)
		case "string":
			s, ok1 := c08str(sv)
			v, ok2 := c08str(c.Value)
			if !ok1 || !ok2 {
				return c08U
			}
			return c08b(c08cmpOp(c.Op, strings.Compare(s, v)))
		case "int":
			v, okv := c08int(c.Value)
			if okv != c08T {
				return c08U
			}
			s, oks := c08int(sv)
			switch oks {
			case c08U:
				return c08U
			case c08F:
				return c08F // "Errors in conversion will result in the comparison evaluating to false"
			}
			return c08b(c08cmpOp(c.Op, c08cmpInt(s, v)))
		case "float":
			v, okv := c08float(c.Value)
			if okv != c08T {
				return c08U
			}
			s, oks := c08float(sv)
			switch oks {
			case c08U:
				return c08U
			case c08F:
				return c08F
			}
			return c08b(c08cmpOp(c.Op, c08cmpFloat(s, v)))
		case "bool":
			if c.Op != "=" && c.Op != "!=" {
				return c08U
			}
			v, okv := c08condBool(c.Value)
			s, oks := c08spanBool(sv)
			if !okv || !oks {
				return c08U
			}
			return c08b((s == v) == (c.Op == "="))
		}
		return c08U
	case "starts-with", "contains", "does-not-contain":
		// "Values are always coerced to strings -- the Datatype parameter is ignored."
		s, ok1 := c08str(sv)
		v, ok2 := c08str(c.Value)
		if !ok1 || !ok2 {
			return c08U
		}
		switch c.Op {
		case "starts-with":
			return c08b(strings.HasPrefix(s, v))
		case "contains":
			return c08b(strings.Contains(s, v))
		}
		return c08b(!strings.Contains(s, v))
	case "matches":
		p, ok1 := c08str(c.Value)
		s, ok2 := c08str(sv)
		if !ok1 || !ok2 {
			return c08U
		}
		re, err := regexp.Compile(p)
		if err != nil {
			return c08U
		}
		anch, err := regexp.Compile(`^(?:` + p + `)$`)
		if err != nil {
			return c08U
		}
		// "matches the regular expression": searched or anchored? assert where both agree
		if re.MatchString(s) != anch.MatchString(s) {
			return c08U
		}
		return c08b(re.MatchString(s))
	case "in", "not-in":
		var list []any
		switch v := c.Value.(type) {
		case []any:
			list = v
		case string, int, float64:
			list = []any{v}
		default:
			return c08U // other scalars are rejected when the condition is initialised
		}
		var in c08tri
		switch c.Datatype {
		case "", "string":
			s, ok := c08str(sv)
			if !ok {
				return c08U
			}
			a := c08F
			for _, e := range list {
				es, ok := c08str(e)
				if !ok {
					return c08U
				}
				if es == s {
					a = c08T
				}
			}
			in = a
			if c.Datatype == "" {
				// second reading: "the value and the field will be compared based on the type of the field"
				ts := make([]c08tri, len(list))
				for i, e := range list {
					ts[i] = c08untyped("=", e, sv)
				}
				if b := c08or(ts...); b != a {
					return c08U
				}
			}
		case "int":
			s, oks := c08int(sv)
			if oks == c08U {
				return c08U
			}
			in = c08F
			for _, e := range list {
				n, ok := c08int(e)
				if ok != c08T {
					return c08U
				}
				if oks == c08T && n == s {
					in = c08T
				}
			}
			if oks == c08F && c.Op == "not-in" {
				return c08U // conversion error => "false", or "not in the list" => true?
			}
		case "float":
			s, oks := c08float(sv)
			if oks == c08U {
				return c08U
			}
			in = c08F
			for _, e := range list {
				n, ok := c08float(e)
				if ok != c08T {
					return c08U
				}
				if oks == c08T && n == s {
					in = c08T
				}
			}
			if oks == c08F && c.Op == "not-in" {
				return c08U
			}
		default:
			return c08U
		}
		if c.Op == "not-in" {
			return c08not(in)
		}
		return in
	}
	return c08U
}

// c08condOnSpan: does the condition match when evaluated for this span?
func c08condOnSpan(tr c08trace, span int, c c08cond, absentEverywhere bool) c08tri {
	val, present, rootSkipped := c08extract(tr, span, c)
	switch c.Op {
	case "exists":
		return c08b(present)
	case "not-exists":
		if present {
			return c08F
		}
		if rootSkipped {
			// rules.md: "The not-exists condition on a root.-prefixed field will evaluate to
			// false if ... the root span does not exist"; rules_test.go expects a match.
			return c08U
		}
		return c08T
	}
	if !present {
		// the property: "a condition on a field absent from every span does not match
		// unless its operator is not-exists"
		if absentEverywhere {
			return c08F
		}
		if c08negativeOrCoerced(c) {
			return c08U
		}
		return c08F // "If none of the fields are present, then the condition will not match."
	}
	if val == nil {
		return c08U // a field carrying null: not documented
	}
	return c08present(c, val)
}

func c08evalRule(tr c08trace, r c08rule) c08tri {
	if len(r.Conds) == 0 {
		return c08T // "If there are no conditions, then the rule will always match."
	}
	if r.Scope == "span" {
		for _, c := range r.Conds {
			if c.Op == "has-root-span" {
				// "Combining them will cause the rule to fail evaluation and be skipped."
				return c08F
			}
		}
		res := c08F
		for i := range tr.Spans {
			ts := make([]c08tri, len(r.Conds))
			for j, c := range r.Conds {
				ts[j] = c08condOnSpan(tr, i, c, c08absentEverywhere(tr, c))
			}
			res = c08or(res, c08and(ts...))
		}
		return res
	}
	ts := make([]c08tri, len(r.Conds))
	for j, c := range r.Conds {
		if c.Op == "has-root-span" {
			want, ok := c08condBool(c.Value)
			if !ok {
				ts[j] = c08U
			} else {
				ts[j] = c08b((tr.Root >= 0) == want)
			}
			continue
		}
		if len(tr.Spans) == 0 {
			// "each condition can apply to any span": there is none. For not-exists and the
			// trace-level virtual field the documents do not say.
			if c.Op == "not-exists" || c08isVirtual(c) {
				ts[j] = c08U
			} else {
				ts[j] = c08F
			}
			continue
		}
		ae := c08absentEverywhere(tr, c)
		per := make([]c08tri, len(tr.Spans))
		for i := range tr.Spans {
			per[i] = c08condOnSpan(tr, i, c, ae)
		}
		ts[j] = c08or(per...)
	}
	return c08and(ts...)
}

// c08allowed: indices of rules the sampler may apply; len(rules) stands for "no rule matched".
func c08allowed(verdicts []c08tri) map[int]bool {
	out := map[int]bool{}
	for i, v := range verdicts {
		if v == c08T {
			out[i] = true
			return out
		}
		if v == c08U {
			out[i] = true
		}
	}
	out[len(verdicts)] = true
	return out
}

func c08detKeep(id string, rate int) bool {
	if rate <= 1 {
		return true
	}
	sum := sha1.Sum([]byte(id + shardingSalt))
	return uint64(binary.BigEndian.Uint32(sum[:4])) <= uint64(math.MaxUint32)/uint64(rate)
}

// ---- generators --------------------------------------------------------------

var c08fields = []string{"f0", "f1", "f2", "f3"}

var c08spanValues = []any{
	int64(0), int64(1), int64(-1), int64(2), int64(5), int64(10), int64(200), int64(404), int64(500), int64(1)<<53 + 1,
	0.5, 1.5, 2.0, 200.0, -1.5, 99.9, 1e21,
	true, false,
	"", "abc", "ABC", "GET", "POST", "/health", "/healthz", "/api/health", "error", "200", "500", "10", "2", "1", "0", "1.5", "007", "010", "0100", "0089", "+5", "-010", "5.5",
	"true", "false", "TRUE", "t", "yes", "nil", "<nil>", "<", "1e3", " 5",
}

var c08regexps = []string{".*", "^$", "nil", "^/health", `\d+`, "^[0-9]+$", "GET|POST", "abc", "^<", "e", "0$", "^/api/", "[A-Z]+", "^(true|false)$", "("}

func c08genSpanValue(rng *verifkit.Rand) any {
	if rng.Chance(0.03) {
		return nil
	}
	return c08spanValues[rng.Intn(len(c08spanValues))]
}

// integers beyond 2^53 that float64 cannot tell from their neighbours
var c08bigInts = []int64{
	1<<53 + 1, 1<<53 + 2, 1<<53 + 3, 1<<62 - 1, 1 << 62, 1<<62 + 1, math.MaxInt64 - 2, math.MaxInt64 - 1, math.MaxInt64,
	-(1 << 53) - 1, -(1 << 53) - 2, -(1 << 53) - 3, -(1 << 62) + 1, -(1 << 62), -(1 << 62) - 1, math.MinInt64 + 2, math.MinInt64 + 1, math.MinInt64,
}

func c08genTrace(rng *verifkit.Rand) c08trace {
	n := rng.Range(1, 6)
	if rng.Chance(0.02) {
		n = 0
	}
	tr := c08trace{Root: -1, Spans: make([]c08span, n)}
	if n > 0 && rng.Chance(0.7) {
		tr.Root = rng.Intn(n)
	}
	// fields that occur in this trace at all; the others are absent from every span
	active := map[string]bool{}
	for _, f := range c08fields {
		if rng.Chance(0.65) {
			active[f] = true
		}
	}
	tr.Big = rng.Chance(0.07)
	annotated := rng.Chance(0.15) // some elements are span events / span links (never the root)
	// in a big-integer trace each field holds values from one neighbourhood
	hood := map[string]int{}
	for _, f := range c08fields {
		hood[f] = 3 * rng.Intn(len(c08bigInts)/3)
	}
	for i := range tr.Spans {
		tr.Spans[i] = c08span{"other": int64(i)}
		if annotated && i != tr.Root && rng.Chance(0.6) {
			tr.Spans[i][c08annotationKey] = verifkit.Pick(rng, "span_event", "link")
		}
		for _, f := range c08fields {
			if active[f] && rng.Chance(0.55) {
				if tr.Big {
					v := c08bigInts[hood[f]+rng.Intn(3)]
					if strconv.IntSize == 64 && rng.Chance(0.15) {
						tr.Spans[i][f] = int(v) // not a wire type; only typed conversions are asserted on it
					} else {
						tr.Spans[i][f] = v
					}
					continue
				}
				tr.Spans[i][f] = c08genSpanValue(rng)
			}
		}
	}
	return tr
}

// a value taken from the trace for one of the condition's fields (so that positive
// conditions match often), in the Go type a YAML rules file would give it.
func c08valueFromTrace(rng *verifkit.Rand, tr c08trace, fields []string) (any, bool) {
	var cands []any
	for _, f := range fields {
		f = strings.TrimPrefix(f, "root.")
		for _, sp := range tr.Spans {
			if v, ok := sp[f]; ok && v != nil {
				cands = append(cands, v)
			}
		}
	}
	if len(cands) == 0 {
		return nil, false
	}
	v := cands[rng.Intn(len(cands))]
	if n, ok := v.(int); ok {
		v = int64(n)
	}
	if n, ok := v.(int64); ok {
		big := n > 1<<53 || n < -(1<<53)
		if big && rng.Chance(0.5) { // the neighbour float64 cannot tell apart
			if d := int64(rng.Range(1, 2)); rng.Bool() && n <= math.MaxInt64-d {
				n += d
			} else if n >= math.MinInt64+d {
				n -= d
			}
		}
		if (big && strconv.IntSize == 64 && rng.Chance(0.85)) || (rng.Chance(0.7) && n < 1<<31 && n > -(1<<31)) {
			return int(n), true // YAML-loaded rules carry Go ints
		}
		return n, true
	}
	return v, true
}

func c08genScalar(rng *verifkit.Rand, dt string) any {
	numeric := func() any {
		switch rng.Intn(4) {
		case 0:
			return verifkit.Pick[any](rng, 0.5, 1.5, 2.0, 200.0, 99.9, 5.5)
		case 1:
			return verifkit.Pick[any](rng, "200", "5", "1", "0", "1.5", "010", "0100", "0089", "+5", "0200")
		default:
			return verifkit.Pick[any](rng, 0, 1, 2, 5, 10, 200, 404, 500, -1, int64(5), int64(200))
		}
	}
	switch dt {
	case "int", "float":
		if rng.Chance(0.92) {
			return numeric()
		}
	case "bool":
		if rng.Chance(0.9) {
			return verifkit.Pick[any](rng, true, false, "true", "false")
		}
	}
	v := c08spanValues[rng.Intn(len(c08spanValues))]
	if n, ok := v.(int64); ok && n < 1<<31 {
		return int(n)
	}
	return v
}

var c08ops = []string{"=", "!=", ">", "<", ">=", "<=", "starts-with", "contains", "does-not-contain", "exists", "not-exists", "has-root-span", "matches", "in", "not-in"}
var c08datatypes = []string{"", "", "string", "int", "float", "bool"}

func c08genCond(rng *verifkit.Rand, tr c08trace, scope string) c08cond {
	c := c08cond{}
	c.Op = c08ops[rng.Intn(len(c08ops))]
	if c.Op == "has-root-span" && (scope == "span" && rng.Chance(0.8)) {
		c.Op = "exists"
	}
	c.Datatype = c08datatypes[rng.Intn(len(c08datatypes))]
	if tr.Big && rng.Chance(0.7) {
		c.Op = verifkit.Pick(rng, "=", "!=", "<", "<=", ">", ">=", "in", "not-in")
		c.Datatype = verifkit.Pick(rng, "", "", "int", "string")
	}
	if (c.Op == "in" || c.Op == "not-in") && c.Datatype == "bool" {
		c.Datatype = "" // rejected by Init; not documented what happens then
	}
	if c.Op == "has-root-span" {
		c.Datatype = ""
		c.Value = verifkit.Pick[any](rng, true, true, false, false, "true", "false")
		return c
	}
	// fields
	name := func() string {
		f := c08fields[rng.Intn(len(c08fields))]
		if rng.Chance(0.25) {
			f = "root." + f
		}
		return f
	}
	switch {
	case (rng.Chance(0.06) || (c08annotations(tr) > 0 && rng.Chance(0.4))) && c.Op != "exists" && c.Op != "not-exists":
		c.Fields = []string{c08virtualDescendants}
		if c.Datatype == "bool" || c.Datatype == "string" {
			c.Datatype = "int"
		}
	case rng.Chance(0.3):
		c.AsList = true
		for n := rng.Range(1, 3); len(c.Fields) < n; {
			c.Fields = append(c.Fields, name())
		}
	default:
		c.Fields = []string{name()}
	}
	// value
	switch c.Op {
	case "exists", "not-exists":
		if rng.Chance(0.2) {
			c.Value = c08genScalar(rng, "")
		}
	case "matches":
		c.Value = c08regexps[rng.Intn(len(c08regexps))]
	case "in", "not-in":
		if rng.Chance(0.15) {
			c.Value = c08genScalar(rng, c.Datatype)
			if _, ok := c.Value.(bool); ok {
				c.Value = "true"
			}
			break
		}
		var list []any
		kind := rng.Intn(3)
		if c.Datatype == "int" || c.Datatype == "float" {
			kind = 1 + rng.Intn(2)
			if rng.Chance(0.2) {
				kind = 3 // numbers written as quoted text
			}
		}
		for n := rng.Range(1, 3); len(list) < n; {
			switch kind {
			case 3:
				list = append(list, verifkit.Pick[any](rng, "10", "010", "0100", "100", "0089", "89", "+5", "5", "200", "0200"))
			case 0:
				list = append(list, verifkit.Pick[any](rng, "abc", "GET", "POST", "200", "500", "/health", "<nil>", "", "true", "1", "error"))
			case 1:
				list = append(list, verifkit.Pick[any](rng, 0, 1, 2, 5, 10, 200, 404, 500))
			default:
				list = append(list, verifkit.Pick[any](rng, 0.5, 1.5, 2.0, 200.0, 99.9))
			}
		}
		if v, ok := c08valueFromTrace(rng, tr, c.Fields); ok && rng.Chance(0.4) {
			switch v.(type) {
			case string, int, float64:
				same := true
				for _, e := range list {
					if fmt.Sprintf("%T", e) != fmt.Sprintf("%T", v) {
						same = false
					}
				}
				if same {
					list[rng.Intn(len(list))] = v
				}
			}
		}
		c.Value = list
	default:
		if c08isVirtual(c) {
			regular := len(tr.Spans) - c08annotations(tr)
			c.Value = verifkit.Pick[any](rng, len(tr.Spans), len(tr.Spans), len(tr.Spans)+1, len(tr.Spans)-1, regular, regular, 1, 3, int64(len(tr.Spans)), float64(len(tr.Spans)))
			break
		}
		if v, ok := c08valueFromTrace(rng, tr, c.Fields); ok && (rng.Chance(0.5) || tr.Big) {
			c.Value = v
			break
		}
		c.Value = c08genScalar(rng, c.Datatype)
	}
	return c
}

func c08genRules(rng *verifkit.Rand, tr c08trace) []c08rule {
	n := rng.Range(1, 4)
	rules := make([]c08rule, n)
	for i := range rules {
		r := c08rule{Name: fmt.Sprintf("R%d#", i)}
		r.Scope = verifkit.Pick(rng, "", "", "trace", "span", "span")
		nc := verifkit.Pick(rng, 1, 1, 1, 1, 1, 2, 2, 2, 3)
		if rng.Chance(0.08) || (i == n-1 && rng.Chance(0.15)) {
			nc = 0
		}
		for j := 0; j < nc; j++ {
			r.Conds = append(r.Conds, c08genCond(rng, tr, r.Scope))
		}
		switch k := rng.Intn(20); {
		case k < 6:
			r.Drop = true
			r.SampleRate = verifkit.Pick(rng, 0, 1, 10)
		case k < 9:
			r.SampleRate = 1
		case k < 16:
			r.SampleRate = verifkit.Pick(rng, 2, 3, 10, 100)
		case k < 19:
			r.Down, r.DownRate = "deterministic", verifkit.Pick(rng, 1, 2, 5, 50)
			r.Drop = rng.Chance(0.3) // the downstream sampler has precedence over Drop
			r.SampleRate = verifkit.Pick(rng, 0, 7)
		default:
			r.Down, r.DownRate = "dynamic", verifkit.Pick(rng, 1, 4)
		}
		rules[i] = r
	}
	return rules
}

// ---- localisation of a disagreement -----------------------------------------

func c08appliedIndex(rules []c08rule, reason string) int {
	for i, r := range rules {
		if strings.Contains(reason, r.Name) {
			return i
		}
	}
	return len(rules)
}

func c08fieldState(tr c08trace, c c08cond) string {
	switch {
	case c.Op == "has-root-span":
		return "trace-level"
	case c08isVirtual(c):
		return "virtual-field"
	case len(tr.Spans) == 0:
		return "no-spans"
	case c08absentEverywhere(tr, c):
		return "absent-from-every-span"
	}
	all := true
	for i := range tr.Spans {
		if _, p, _ := c08extract(tr, i, c); !p {
			all = false
		}
	}
	if all {
		return "present-on-every-span"
	}
	return "present-on-some-spans"
}

// the matcher family in config/sampler_config.go that serves the condition
func c08matcherFamily(c c08cond) string {
	switch c.Op {
	case "starts-with", "contains", "does-not-contain":
		return "string-match-operators"
	case "matches":
		return "regexp-operator"
	case "in", "not-in":
		return "in-operators"
	case "=", "!=", "<", "<=", ">", ">=":
		if c.Datatype == "" {
			return "untyped-comparison"
		}
		return "comparison-datatype-" + c.Datatype
	}
	return c.Op
}

func c08dt(c c08cond) string {
	if c.Datatype == "" {
		return "untyped"
	}
	return c.Datatype
}

// c08blame names the call site and input class of a disagreement about rule `b`.
func c08blame(real *c08real, tr c08trace, id string, r c08rule, kind string) (string, string) {
	scope := r.Scope
	if scope == "" {
		scope = "trace"
	}
	// ask the real sampler about each condition on its own
	for _, c := range r.Conds {
		single := c08rule{Name: "S0#", Scope: r.Scope, Conds: []c08cond{c}, SampleRate: 1}
		model := c08evalRule(tr, single)
		if model == c08U {
			continue
		}
		_, _, reason, _ := real.decide([]c08rule{single}, tr, id)
		got := c08b(strings.Contains(reason, single.Name))
		if got == model {
			continue
		}
		state := c08fieldState(tr, c)
		desc := fmt.Sprintf("condition %s alone (scope %s): sampler says %s, documented semantics say %s; field is %s", c, scope, got, model, state)
		if state == "absent-from-every-span" && got == c08T {
			return "C08/condition-on-field-absent-from-every-span-matched/" + c08matcherFamily(c), desc
		}
		return fmt.Sprintf("C08/%s/%s/%s/%s/%s", kind, scope, c.Op, c08dt(c), state), desc
	}
	return fmt.Sprintf("C08/%s/%s/conditions-in-combination", kind, scope), "no single condition of the rule disagrees with the model on its own"
}

// ---- the check ---------------------------------------------------------------

func TestVerif_C08(t *testing.T) {
	run := verifkit.Start(t, "C08", "sample")
	defer run.Finish()
	run.Rule("(rule list, trace) pairs: 1..4 rules, 0..3 conditions each over all 15 operators x 5 datatypes x value types (Go int/int64/float64/bool/string/list) x scope {default, trace, span} x Field / Fields(1..3) x root. prefix x ?.NUM_DESCENDANTS, actions {Drop, SampleRate 1, SampleRate N, downstream deterministic, downstream dynamic}; traces of 0..6 spans with/without root, each field either absent from every span or present on about half of them with typed values (ints, floats, bools, numeric-looking and other strings, nil); half of the condition values are taken from the trace. The applied rule (by name in the reason) must be in the set the three-valued model of the documents allows. non-trivial = the model allows exactly one outcome and the deciding rule has conditions; distinct = scope x (operator, datatype, field state) of the deciding rule x outcome")
	run.Assume("the rule applied is identified by the rule name contained in the returned reason; CheckNestedFields is off; rule names are unique")
	run.Assume("where rules.md / rules_conditions.md are silent or ambiguous the model answers 'unspecified' and nothing is asserted (list in notes/C08.md)")

	real := c08NewReal()
	defer real.stop()

	run.Cases("pair", run.N(20000, 1500000), func(i int, rng *verifkit.Rand) {
		tr := c08genTrace(rng)
		rules := c08genRules(rng, tr)
		id := rng.Hex(32)

		verdicts := make([]c08tri, len(rules))
		for j, r := range rules {
			verdicts[j] = c08evalRule(tr, r)
		}
		allowed := c08allowed(verdicts)

		rate, keep, reason, key := real.decide(rules, tr, id)
		k := c08appliedIndex(rules, reason)
		run.Count("decisions", 1)

		wit := func() map[string]any {
			rw := make([]any, len(rules))
			for j, r := range rules {
				w := r.witness()
				w["model"] = verdicts[j].String()
				rw[j] = w
			}
			return map[string]any{"rules": rw, "trace": tr.witness(), "trace_id": id, "returned": map[string]any{"rate": rate, "keep": keep, "reason": reason, "key": key}}
		}

		if !allowed[k] {
			// first rule on which sampler and model differ
			b, kind := k, "rule-matched-against-documented-semantics"
			for j := 0; j < k && j < len(rules); j++ {
				if verdicts[j] == c08T {
					b, kind = j, "rule-not-matched-against-documented-semantics"
					break
				}
			}
			sig, desc := c08blame(real, tr, id, rules[b], kind)
			w := wit()
			w["blamed_rule"] = rules[b].Name
			w["localisation"] = desc
			run.Violation(sig, fmt.Sprintf("sampler applied %q but the documented semantics allow only %v; rule %s: %s", reason, c08allowedNames(rules, allowed), rules[b].Name, desc), w)
		} else if k == len(rules) {
			if rate != 1 || !keep {
				run.Violation("C08/no-rule-matched/not-kept-at-rate-1", fmt.Sprintf("no rule matched but rate=%d keep=%v", rate, keep), wit())
			}
		} else {
			r := rules[k]
			switch {
			case r.Down == "deterministic":
				wantRate := uint(r.DownRate)
				if r.DownRate <= 1 {
					wantRate = 1
				}
				if rate != wantRate {
					run.Violation("C08/downstream-deterministic/rate", fmt.Sprintf("rule delegates to a deterministic sampler at rate %d but rate=%d", r.DownRate, rate), wit())
				}
				if keep != c08detKeep(id, r.DownRate) {
					run.Violation("C08/downstream-deterministic/keep", fmt.Sprintf("keep=%v differs from the deterministic sampler's decision for this trace id", keep), wit())
				}
			case r.Down == "dynamic":
				if want := c08StandaloneDynamicKey(r.DownRate, r.downFields(), tr, id); key != want {
					run.Violation("C08/downstream-dynamic/not-delegated", fmt.Sprintf("key %q is not the downstream dynamic sampler's key %q", key, want), wit())
				}
				if rate < 1 || (rate == 1 && !keep) {
					run.Violation("C08/downstream-dynamic/rate-keep", fmt.Sprintf("rate=%d keep=%v", rate, keep), wit())
				}
			case r.Drop:
				if keep {
					run.Violation("C08/drop-rule/kept", "a matching Drop rule kept the trace", wit())
				}
			default:
				if rate != uint(r.SampleRate) {
					run.Violation("C08/samplerate-rule/rate", fmt.Sprintf("rule has SampleRate %d but rate=%d", r.SampleRate, rate), wit())
				}
				if r.SampleRate == 1 && !keep {
					run.Violation("C08/samplerate-rule/rate-1-not-kept", "SampleRate 1 did not keep the trace", wit())
				}
			}
		}

		// evidence bookkeeping
		if tr.Big {
			run.Count("cases_with_large_neighbouring_integers", 1)
			if len(allowed) == 1 {
				run.Count("cases_with_large_neighbouring_integers_definite", 1)
			}
		}
		if c08definite(verdicts, allowed) {
			d := c08decider(verdicts)
			outcome := "none"
			var shape []string
			if d < len(rules) {
				r := rules[d]
				outcome = "rate"
				switch {
				case r.Down != "":
					outcome = r.Down
				case r.Drop:
					outcome = "drop"
				}
				for _, c := range r.Conds {
					shape = append(shape, c.Op+"/"+c08dt(c)+"/"+c08fieldState(tr, c))
				}
				sort.Strings(shape)
				if len(r.Conds) > 0 {
					sc := r.Scope
					if sc == "" {
						sc = "default"
					}
					run.Nontrivial(sc + "|" + strings.Join(shape, "&") + "|" + outcome)
				}
			} else {
				// every rule definitely does not match
				for _, r := range rules {
					for _, c := range r.Conds {
						shape = append(shape, c.Op+"/"+c08dt(c)+"/"+c08fieldState(tr, c))
					}
				}
				sort.Strings(shape)
				run.Nontrivial("none|" + strings.Join(shape, "&"))
			}
			run.Count("cases_model_definite", 1)
		} else {
			run.Count("cases_model_open", 1)
		}
		for j, r := range rules {
			for _, c := range r.Conds {
				if verdicts[j] != c08U && c.Op != "not-exists" && c.Op != "has-root-span" && !c08isVirtual(c) && len(tr.Spans) > 0 && c08absentEverywhere(tr, c) {
					run.Count("conditions_on_field_absent_from_every_span", 1)
				}
			}
		}
		if i < 3 {
			run.Sample(wit())
		}
	})

	// ---- rules that only differ in conditions and downstream sampler ---------------
	// Name is optional, so several rules may share Name (or have none), Scope, Drop,
	// SampleRate and number of conditions and still delegate to DIFFERENT downstream
	// samplers. The rule name in the reason cannot tell them apart; the applied rule is
	// identified by behaviour: every rule of the list has its own deterministic rate or its
	// own dynamic field list, and the returned (rate, keep, key) must be what the downstream
	// sampler OF A RULE THE MODEL ALLOWS answers for this trace.
	run.Cases("twin-downstream", run.N(4000, 300000), func(i int, rng *verifkit.Rand) {
		tr := c08genTrace(rng)
		for len(tr.Spans) == 0 {
			tr = c08genTrace(rng)
		}
		id := rng.Hex(32)
		n := rng.Range(2, 4)
		name := verifkit.Pick(rng, "", "", "dup", "check status")
		scope := verifkit.Pick(rng, "", "trace", "span")
		nconds := verifkit.Pick(rng, 1, 1, 1, 2)
		drop := rng.Chance(0.2)
		sampleRate := verifkit.Pick(rng, 0, 0, 1, 10)
		detRates := rng.Perm(6) // distinct rates 2,3,5,7,11,50
		dynLists := rng.Perm(6)
		rules := make([]c08rule, n)
		for j := range rules {
			r := c08rule{Name: name, Scope: scope, Drop: drop, SampleRate: sampleRate}
			if rng.Chance(0.15) { // now and then a rule of the list is not a twin
				r.Name = fmt.Sprintf("other%d", j)
			}
			for k := 0; k < nconds; k++ {
				if rng.Chance(0.7) {
					r.Conds = append(r.Conds, c08genSimpleCond(rng, tr))
				} else {
					r.Conds = append(r.Conds, c08genCond(rng, tr, scope))
				}
			}
			if rng.Chance(0.6) {
				r.Down, r.DownRate = "deterministic", []int{2, 3, 5, 7, 11, 50}[detRates[j]]
			} else {
				r.Down, r.DownRate = "dynamic", verifkit.Pick(rng, 2, 4, 9)
				r.DownFields = [][]string{{"f0"}, {"f1"}, {"f2"}, {"f0", "f1"}, {"f1", "f2"}, {"f3", "other"}}[dynLists[j]]
			}
			rules[j] = r
		}
		verdicts := make([]c08tri, n)
		for j, r := range rules {
			verdicts[j] = c08evalRule(tr, r)
		}
		allowed := c08allowed(verdicts)
		rate, keep, reason, key := real.decide(rules, tr, id)
		run.Count("decisions", 1)
		run.Count("twin_cases", 1)

		fits := func(j int) bool {
			if j == n {
				return rate == 1 && keep && key == ""
			}
			r := rules[j]
			if r.Down == "deterministic" {
				return rate == uint(r.DownRate) && keep == c08detKeep(id, r.DownRate) && key == ""
			}
			return rate >= 1 && (rate > 1 || keep) && key == c08StandaloneDynamicKey(r.DownRate, r.downFields(), tr, id)
		}
		ok := false
		for j := 0; j <= n; j++ {
			if allowed[j] && fits(j) {
				ok = true
			}
		}
		if !ok {
			rw := make([]any, n)
			for j, r := range rules {
				w := r.witness()
				w["model"] = verdicts[j].String()
				rw[j] = w
			}
			w := map[string]any{"rules": rw, "trace": tr.witness(), "trace_id": id, "returned": map[string]any{"rate": rate, "keep": keep, "reason": reason, "key": key}}
			other := -1
			for j := 0; j < n; j++ {
				if !allowed[j] && fits(j) {
					other = j
				}
			}
			if other >= 0 && len(allowed) == 1 && c08decider(verdicts) < n {
				d := c08decider(verdicts)
				w["matched_rule_index"], w["delegated_to_rule_index"] = d, other
				run.Violation("C08/downstream/delegated-to-another-rules-sampler",
					fmt.Sprintf("rule #%d (%s) is the first matching rule but rate=%d keep=%v key=%q are the answer of rule #%d's downstream sampler (%s)", d, rules[d].witness()["action"], rate, keep, key, other, rules[other].witness()["action"]), w)
			} else {
				run.Violation("C08/downstream/result-fits-no-allowed-rule",
					fmt.Sprintf("rate=%d keep=%v key=%q reason=%q is not what the downstream sampler of any rule the documented semantics allow (%v) answers", rate, keep, key, reason, c08allowedIdx(allowed)), w)
			}
		}
		if len(allowed) == 1 {
			d := c08decider(verdicts)
			if d < n {
				// is there a LATER rule with the same name/scope/shape (a twin that could shadow it)?
				later := false
				for j := d + 1; j < n; j++ {
					if rules[j].Name == rules[d].Name {
						later = true
					}
				}
				if later {
					run.Count("twin_cases_earlier_twin_decides", 1)
					run.Nontrivial(fmt.Sprintf("twin|%s|%s|%d|%d|%s>%s", name, scope, nconds, d, rules[d].Down, rules[d+1].Down))
				}
			}
		}
		if i < 1 {
			run.Sample(map[string]any{"kind": "twin-downstream", "rules": []any{rules[0].witness(), rules[1].witness()}, "trace": tr.witness()})
		}
	})

	// ---- keep frequency of SampleRate N rules (thorough) ------------------------
	if run.Thorough() {
		const calls = 100000
		for _, n := range []int{2, 3, 10, 100} {
			n := n
			run.Cases(fmt.Sprintf("keep-frequency-%d", n), 1, func(_ int, rng *verifkit.Rand) {
				rules := []c08rule{{Name: "R0#", Scope: "trace", Conds: []c08cond{{Fields: []string{"f0"}, Op: "exists"}}, SampleRate: n}}
				tr := c08trace{Root: 0, Spans: []c08span{{"f0": "x"}, {"f1": int64(1)}}}
				s := &RulesBasedSampler{Config: c08RealConfig(rules), Logger: &logger.NullLogger{}, Metrics: &metrics.NullMetrics{}, SamplerFactory: real.factory}
				if err := s.Start(); err != nil {
					t.Fatal(err)
				}
				rt := c08RealTrace(tr, "keepfreq")
				kept := 0
				for j := 0; j < calls; j++ {
					rate, keep, _, _ := s.GetSampleRate(rt)
					if rate != uint(n) {
						run.Violation("C08/samplerate-rule/rate", fmt.Sprintf("rule has SampleRate %d but rate=%d", n, rate), nil)
					}
					if keep {
						kept++
					}
				}
				p := 1 / float64(n)
				mean, sigma := calls*p, math.Sqrt(calls*p*(1-p))
				run.Count(fmt.Sprintf("keep_frequency_kept_rate_%d", n), int64(kept))
				run.Count("keep_frequency_calls", calls)
				if math.Abs(float64(kept)-mean) > 6*sigma+1 {
					run.Violation("C08/samplerate-rule/keep-frequency", fmt.Sprintf("SampleRate %d kept %d of %d, expected %.0f +- %.0f (6 sigma)", n, kept, calls, mean, 6*sigma),
						map[string]any{"rate": n, "calls": calls, "kept": kept})
				}
				run.Nontrivial(fmt.Sprintf("keep-frequency:%d", n))
			})
		}
	}
}

// c08definite: no rule up to and including the deciding one is unspecified.
func c08definite(verdicts []c08tri, allowed map[int]bool) bool { return len(allowed) == 1 }

func c08decider(verdicts []c08tri) int {
	for i, v := range verdicts {
		if v == c08T {
			return i
		}
	}
	return len(verdicts)
}

func c08allowedIdx(allowed map[int]bool) []int {
	var out []int
	for k := range allowed {
		out = append(out, k)
	}
	sort.Ints(out)
	return out
}

// c08genSimpleCond: a condition whose documented meaning is never in doubt.
func c08genSimpleCond(rng *verifkit.Rand, tr c08trace) c08cond {
	f := c08fields[rng.Intn(len(c08fields))]
	c := c08cond{Fields: []string{f}}
	switch rng.Intn(5) {
	case 0:
		c.Op = "exists"
	case 1:
		c.Op = "not-exists"
	default:
		c.Op = "="
		if v, ok := c08valueFromTrace(rng, tr, c.Fields); ok && rng.Chance(0.8) {
			c.Value = v
		} else {
			c.Value = verifkit.Pick[any](rng, "abc", "GET", 200, 5)
		}
	}
	return c
}

func c08allowedNames(rules []c08rule, allowed map[int]bool) []string {
	var out []string
	for i := range rules {
		if allowed[i] {
			out = append(out, rules[i].Name)
		}
	}
	if allowed[len(rules)] {
		out = append(out, "no rule matched")
	}
	return out
}
