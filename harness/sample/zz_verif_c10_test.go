//go:build verif

package sample

import (
	"crypto/sha1"
	"encoding/binary"
	"fmt"
	"math"
	"sort"
	"strconv"
	"strings"
	"sync"
	"testing"

	"github.com/honeycombio/refinery/config"
	"github.com/honeycombio/refinery/internal/verifkit"
	"github.com/honeycombio/refinery/logger"
	"github.com/honeycombio/refinery/metrics"
	"github.com/honeycombio/refinery/types"
)

// C10 (unit "sample"): the deterministic sampler is a pure, nested function of
// (trace ID, rate).
//
// Monitors:
//   model      independent recomputation of the documented threshold rule
//              keep <=> BE32(sha1(id+salt)[0:4]) <= floor((2^32-1)/rate), rate<=1 keeps all
//   purity     two calls, a second freshly started instance and 8 goroutines sharing one
//              instance all decide the same for the same (id, rate)
//   nesting    over a ladder of rates, kept at N implies kept at every M <= N
//   fraction   over a fixed number of PRNG ids the kept fraction is 1/N within 6 sigma
//   factory    deterministic samplers obtained through a started SamplerFactory (top level and
//              rule downstream, several environments, re-configured rates) decide by the rate
//              of the definition that was asked for
//   boundary   searched (id, rate) pairs whose hash is exactly at / one above the threshold

// ---- adapters to the code under test ---------------------------------------

func c10NewDet(rate int) *DeterministicSampler {
	d := &DeterministicSampler{
		Config:  &config.DeterministicSamplerConfig{SampleRate: rate},
		Logger:  &logger.NullLogger{},
		Metrics: &metrics.NullMetrics{},
	}
	if err := d.Start(); err != nil {
		panic(err)
	}
	return d
}

func c10Decide(d *DeterministicSampler, id string) (uint, bool) {
	rate, keep, _, _ := d.GetSampleRate(&types.Trace{TraceID: id})
	return rate, keep
}

// the salt is part of "a fixed hash of its trace ID"; read it from the package
// so that the model checks the threshold rule, not the constant.
func c10Salt() string { return shardingSalt }

// ---- reference model -------------------------------------------------------

func c10ModelKeep(id string, rate int) bool {
	if rate <= 1 {
		return true
	}
	sum := sha1.Sum([]byte(id + c10Salt()))
	v := uint64(binary.BigEndian.Uint32(sum[:4]))
	return v <= uint64(math.MaxUint32)/uint64(rate)
}

// ---- generators ------------------------------------------------------------

var c10BoundaryRates = []int{1, 2, 3, 4, 7, 10, 100, 1000, 65535, 65536, 65537, 1 << 20, 1<<31 - 1, 1 << 31}

func c10GenRate(rng *verifkit.Rand) int {
	switch rng.Intn(10) {
	case 0, 1, 2, 3:
		return c10BoundaryRates[rng.Intn(len(c10BoundaryRates))]
	case 4, 5, 6:
		return rng.Range(1, 64)
	case 7:
		return rng.Range(1, 1<<16)
	default:
		return int(rng.Uint64()%(1<<31)) + 1
	}
}

func c10GenID(rng *verifkit.Rand) (string, string) {
	switch rng.Intn(12) {
	case 0:
		return "", "empty"
	case 1:
		return verifkit.Pick(rng, "日本語のトレース", "trace-ünïcödé-"+rng.Hex(4), "🦶🔫"+rng.Hex(2), "\x00\x01"+rng.Hex(3)), "unicode"
	case 2:
		return strings.Repeat(rng.Hex(8), rng.Range(100, 2000)), "long"
	case 3, 4, 5:
		return rng.Hex(16), "hex16"
	case 6:
		return strings.ToUpper(rng.Hex(32)), "HEX32"
	default:
		return rng.Hex(32), "hex32"
	}
}

func c10RateClass(r int) string {
	switch {
	case r <= 1:
		return "<=1"
	case r < 1<<8:
		return "<2^8"
	case r < 1<<16:
		return "<2^16"
	case r < 1<<31:
		return "<2^31"
	default:
		return "2^31"
	}
}

func TestVerif_C10(t *testing.T) {
	run := verifkit.Start(t, "C10", "sample")
	defer run.Finish()
	run.Rule("(trace id, rate) pairs: ids from {random hex16/hex32, upper-case hex, empty, unicode/control bytes, 800..16000-char}; rates 1..2^31 biased to {1,2,3,..,2^16-1,2^16,2^16+1,2^20,2^31-1,2^31}; each pair is decided by two instances, twice, compared with an independent sha1 threshold model; ladders of 8 rates per id for nesting; 8 goroutines sharing one instance; fixed-size PRNG id sets per rate for the kept fraction. non-trivial = rate>1 pair with a definite model answer; distinct = id class x rate class x decision")
	run.Assume("crypto/sha1 and encoding/binary of the Go standard library are correct (used by the model)")
	run.Assume("rates are within 1..2^31 as the property states; rate 0 and multiples of 2^32 (divide by zero in Start) belong to C28")

	// --- model + purity --------------------------------------------------
	run.Cases("pair", run.N(20000, 2000000), func(i int, rng *verifkit.Rand) {
		id, idc := c10GenID(rng)
		rate := c10GenRate(rng)
		a := c10NewDet(rate)
		b := c10NewDet(rate)
		r1, k1 := c10Decide(a, id)
		r2, k2 := c10Decide(a, id)
		r3, k3 := c10Decide(b, id)
		wit := map[string]any{"trace_id": id, "rate": rate, "first": fmt.Sprint(r1, k1), "again": fmt.Sprint(r2, k2), "other_instance": fmt.Sprint(r3, k3)}
		if r1 != r2 || k1 != k2 {
			run.Violation("C10/deterministic/same-instance-disagrees", "two calls on one sampler disagree for the same (id, rate)", wit)
		}
		if r1 != r3 || k1 != k3 {
			run.Violation("C10/deterministic/instances-disagree", "two samplers with the same rate disagree for the same id", wit)
		}
		want := c10ModelKeep(id, rate)
		wit["model_keep"] = want
		if rate <= 1 {
			if !k1 {
				run.Violation("C10/deterministic/rate-le-1-dropped", "rate <= 1 did not keep the trace", wit)
			}
			if r1 != 1 {
				run.Violation("C10/deterministic/rate-le-1-reported-rate", fmt.Sprintf("rate <= 1 reported sample rate %d", r1), wit)
			}
		} else {
			if k1 != want {
				run.Violation("C10/deterministic/threshold-model-mismatch", fmt.Sprintf("keep=%v but sha1 threshold rule says %v", k1, want), wit)
			}
			if r1 != uint(rate) {
				run.Violation("C10/deterministic/reported-rate", fmt.Sprintf("configured rate %d reported as %d", rate, r1), wit)
			}
			run.Nontrivial(fmt.Sprintf("pair:%s:%s:%v", idc, c10RateClass(rate), k1))
		}
		run.Count("decisions", 3)
		if k1 {
			run.Count("pair_kept", 1)
		}
		if i < 3 {
			run.Sample(map[string]any{"kind": "pair", "trace_id": id, "rate": rate, "keep": k1})
		}
	})

	// --- nesting over rate ladders --------------------------------------
	run.Cases("ladder", run.N(4000, 300000), func(i int, rng *verifkit.Rand) {
		id, idc := c10GenID(rng)
		// a ladder biased to small rates so that "kept" is actually observed
		rates := make([]int, 0, 8)
		for len(rates) < 8 {
			switch rng.Intn(3) {
			case 0:
				rates = append(rates, rng.Range(1, 8))
			case 1:
				rates = append(rates, rng.Range(1, 200))
			default:
				rates = append(rates, c10GenRate(rng))
			}
		}
		sort.Ints(rates)
		keeps := make([]bool, len(rates))
		for j, r := range rates {
			_, keeps[j] = c10Decide(c10NewDet(r), id)
		}
		run.Count("decisions", int64(len(rates)))
		// kept at rates[j] => kept at all rates[i<=j]
		highestKept := -1
		for j := range rates {
			if keeps[j] {
				highestKept = j
			}
		}
		for j := 0; j < highestKept; j++ {
			if !keeps[j] {
				run.Violation("C10/deterministic/not-nested", fmt.Sprintf("kept at rate %d but dropped at smaller rate %d", rates[highestKept], rates[j]),
					map[string]any{"trace_id": id, "rates": rates, "keeps": keeps})
				break
			}
		}
		if highestKept >= 1 && rates[highestKept] > 1 {
			run.Count("ladders_with_kept_above_rate_1", 1)
			run.Nontrivial(fmt.Sprintf("ladder:%s:%d", idc, highestKept))
		}
	})

	// --- agreement across goroutines sharing one instance ---------------
	run.Cases("goroutines", run.N(6, 60), func(i int, rng *verifkit.Rand) {
		rate := verifkit.Pick(rng, 2, 3, 5, 10, 100)
		shared := c10NewDet(rate)
		const nids = 2000
		ids := make([]string, nids)
		for j := range ids {
			ids[j] = rng.Hex(32)
		}
		seq := make([]bool, nids)
		for j, id := range ids {
			_, seq[j] = c10Decide(c10NewDet(rate), id)
		}
		var wg sync.WaitGroup
		const workers = 8
		got := make([][]bool, workers)
		for w := 0; w < workers; w++ {
			got[w] = make([]bool, nids)
			wg.Add(1)
			go func(w int) {
				defer wg.Done()
				// each goroutine walks the ids from a different offset
				for j := 0; j < nids; j++ {
					x := (j + w*251) % nids
					_, got[w][x] = c10Decide(shared, ids[x])
				}
			}(w)
		}
		wg.Wait()
		kept := 0
		for j := range ids {
			if seq[j] {
				kept++
			}
			for w := 0; w < workers; w++ {
				if got[w][j] != seq[j] {
					run.Violation("C10/deterministic/goroutines-disagree", "a goroutine sharing the sampler decided differently from a sequential instance",
						map[string]any{"trace_id": ids[j], "rate": rate, "sequential": seq[j], "goroutine": got[w][j]})
				}
			}
		}
		run.Count("decisions", int64(nids*(workers+1)))
		run.Nontrivial(fmt.Sprintf("goroutines:%d:%d", rate, kept))
	})

	// --- directed boundary inputs: hash exactly at / one above the threshold -----
	// A random id hits the threshold exactly with probability 2^-32, so sampling never
	// sees "<" vs "<=" or an off-by-one bound. Search instead: for PRNG-numbered ids compute
	// the hash h with the model and look for a rate N in 2..2^31 with floor((2^32-1)/N) == h
	// (kept: at the threshold) or == h-1 (dropped: first value above it). About one id in
	// 2^15 admits such a rate.
	wantPairs := run.N(300, 3000)
	run.Cases("boundary", 1, func(_ int, rng *verifkit.Rand) {
		const maxU32 = uint64(math.MaxUint32)
		prefix := "b" + rng.Hex(6) + "-"
		salt := c10Salt()
		buf := make([]byte, 0, 64)
		at, above, scanned := 0, 0, 0
		limit := wantPairs * 400000
		for n := 0; (at < wantPairs || above < wantPairs) && n < limit; n++ {
			scanned++
			buf = append(buf[:0], prefix...)
			buf = strconv.AppendInt(buf, int64(n), 36)
			idLen := len(buf)
			buf = append(buf, salt...)
			sum := sha1.Sum(buf)
			h := uint64(binary.BigEndian.Uint32(sum[:4]))
			for _, target := range [2]uint64{h, h - 1} {
				if h < 3 || target < 2 {
					continue
				}
				N := maxU32 / target
				if N < 2 || N > 1<<31 || maxU32/N != target {
					continue
				}
				atThreshold := target == h
				if atThreshold && at >= wantPairs || !atThreshold && above >= wantPairs {
					continue
				}
				id := string(buf[:idLen])
				rate, keep := c10Decide(c10NewDet(int(N)), id)
				_, keepBelow := c10Decide(c10NewDet(int(N)-1), id) // nesting right at the edge: smaller rate, larger bound
				wit := map[string]any{"trace_id": id, "rate": N, "hash": h, "threshold_floor_maxuint32_div_rate": maxU32 / N, "keep": keep}
				run.Count("decisions", 2)
				if rate != uint(N) {
					run.Violation("C10/deterministic/reported-rate", fmt.Sprintf("configured rate %d reported as %d", N, rate), wit)
				}
				if atThreshold {
					at++
					if !keep {
						run.Violation("C10/deterministic/threshold-boundary/hash-equal-to-threshold-dropped", fmt.Sprintf("hash %d equals floor((2^32-1)/%d) but the trace was dropped", h, N), wit)
					}
					if keep && !keepBelow {
						run.Violation("C10/deterministic/not-nested", fmt.Sprintf("kept at rate %d but dropped at rate %d", N, N-1), wit)
					}
					run.Nontrivial(fmt.Sprintf("boundary:at:%s", c10RateClass(int(N))))
				} else {
					above++
					if keep {
						run.Violation("C10/deterministic/threshold-boundary/hash-one-above-threshold-kept", fmt.Sprintf("hash %d is floor((2^32-1)/%d)+1 but the trace was kept", h, N), wit)
					}
					run.Nontrivial(fmt.Sprintf("boundary:above:%s", c10RateClass(int(N))))
				}
			}
		}
		run.Count("boundary_ids_scanned", int64(scanned))
		run.Count("boundary_pairs_hash_equal_to_threshold", int64(at))
		run.Count("boundary_pairs_hash_one_above_threshold", int64(above))
		if at < wantPairs/4 || above < wantPairs/4 {
			run.Inconclusive(fmt.Sprintf("boundary search found only %d/%d pairs in %d ids", at, above, scanned))
		}
	})

	// --- deterministic samplers obtained through the real SamplerFactory -------
	// One started factory serves several environments: plain deterministic samplers and
	// rules-based samplers whose rules delegate to deterministic samplers at DISTINCT rates
	// (rule j is selected by the span field k = j). Samplers are requested in PRNG order,
	// rates are re-configured between requests with and without ClearDynsamplers (reload),
	// and every (rate, keep) must be the threshold decision for the rate of the definition
	// that was asked for - whatever the factory created before.
	run.Cases("factory", run.N(300, 6000), func(i int, rng *verifkit.Rand) {
		type env struct {
			name  string
			rates []int // one rate = plain DeterministicSampler, several = rules with deterministic downstream
			rules bool
		}
		pick := func(exclude map[int]bool) int {
			for {
				r := verifkit.Pick(rng, 1, 2, 3, 5, 7, 10, 50, 100, 1000, 65536, 1<<31-1, 1<<31)
				if !exclude[r] {
					exclude[r] = true
					return r
				}
			}
		}
		envs := make([]*env, rng.Range(2, 4))
		for e := range envs {
			ev := &env{name: verifkit.Pick(rng, "prod", "staging", "dev", "dataset-"+rng.Hex(2), "__default__") + strconv.Itoa(e)}
			used := map[int]bool{}
			if rng.Chance(0.6) {
				ev.rules = true
				for n := rng.Range(2, 4); len(ev.rates) < n; {
					ev.rates = append(ev.rates, pick(used))
				}
			} else {
				ev.rates = []int{pick(used)}
			}
			envs[e] = ev
		}
		cfg := &config.MockConfig{Samplers: map[string]*config.V2SamplerChoice{}}
		install := func(ev *env) {
			choice := &config.V2SamplerChoice{}
			if !ev.rules {
				choice.DeterministicSampler = &config.DeterministicSamplerConfig{SampleRate: ev.rates[0]}
			} else {
				rb := &config.RulesBasedSamplerConfig{}
				for j, r := range ev.rates {
					rb.Rules = append(rb.Rules, &config.RulesBasedSamplerRule{
						Name:       verifkit.Pick(rng, "", "rule", "rule-"+strconv.Itoa(j)),
						Conditions: []*config.RulesBasedSamplerCondition{{Field: "k", Operator: config.EQ, Value: j, Datatype: "int"}},
						Sampler:    &config.RulesBasedDownstreamSampler{DeterministicSampler: &config.DeterministicSamplerConfig{SampleRate: r}},
					})
				}
				choice.RulesBasedSampler = rb
			}
			cfg.Mux.Lock()
			cfg.Samplers[ev.name] = choice
			cfg.Mux.Unlock()
		}
		for _, ev := range envs {
			install(ev)
		}
		f := &SamplerFactory{Config: cfg, Logger: &logger.NullLogger{}, Metrics: &metrics.NullMetrics{}}
		if err := f.Start(); err != nil {
			t.Fatalf("verif harness: SamplerFactory.Start: %v", err)
		}
		defer f.Stop()
		var hist []string
		allRates := func() map[int]bool {
			m := map[int]bool{}
			for _, ev := range envs {
				for _, r := range ev.rates {
					m[r] = true
				}
			}
			return m
		}
		steps := rng.Range(6, 14)
		for st := 0; st < steps; st++ {
			ev := envs[rng.Intn(len(envs))]
			switch rng.Intn(6) {
			case 0: // the definition changes and the reload clears the factory's shared state
				used := map[int]bool{}
				for j := range ev.rates {
					ev.rates[j] = pick(used)
				}
				install(ev)
				f.ClearDynsamplers()
				hist = append(hist, fmt.Sprintf("reconfigure %s -> %v + ClearDynsamplers", ev.name, ev.rates))
			case 1: // the definition changes; the factory is simply asked again
				j := rng.Intn(len(ev.rates))
				used := map[int]bool{}
				for _, r := range ev.rates {
					used[r] = true
				}
				ev.rates[j] = pick(used)
				install(ev)
				hist = append(hist, fmt.Sprintf("reconfigure %s -> %v (no clear)", ev.name, ev.rates))
			}
			s := f.GetSamplerImplementationForKey(ev.name)
			hist = append(hist, "get "+ev.name)
			if s == nil {
				run.Violation("C10/deterministic/factory/no-sampler", "the factory returned no sampler for a configured environment", map[string]any{"history": hist})
				continue
			}
			others := allRates()
			for j, want := range ev.rates {
				for n := 0; n < 12; n++ {
					id := rng.Hex(32)
					tr := &types.Trace{TraceID: id}
					tr.AddSpan(&types.Span{TraceID: id, Event: &types.Event{Data: types.NewPayload(cfg, map[string]any{"k": int64(j)})}})
					rate, keep, reason, _ := s.GetSampleRate(tr)
					run.Count("decisions", 1)
					wantRate := uint(want)
					if want <= 1 {
						wantRate = 1
					}
					wit := map[string]any{"history": hist, "environment": ev.name, "definition_rates": ev.rates, "asked_rule": j, "configured_rate": want,
						"trace_id": id, "returned_rate": rate, "keep": keep, "reason": reason}
					if rate != wantRate {
						sig := "C10/deterministic/factory/reported-rate"
						if others[int(rate)] {
							sig = "C10/deterministic/factory/rate-of-another-definition"
						}
						run.Violation(sig, fmt.Sprintf("deterministic sampler configured at rate %d (environment %s, rule %d) reports rate %d", want, ev.name, j, rate), wit)
						break
					}
					if keep != c10ModelKeep(id, want) {
						run.Violation("C10/deterministic/factory/threshold-model-mismatch", fmt.Sprintf("keep=%v but the threshold rule for the configured rate %d says %v", keep, want, !keep), wit)
						break
					}
				}
			}
			kind := "plain"
			if ev.rules {
				kind = fmt.Sprintf("rules%d", len(ev.rates))
			}
			run.Nontrivial(fmt.Sprintf("factory:%s:%d", kind, st))
		}
		run.Count("factory_sampler_requests", int64(steps))
	})

	// --- kept fraction ----------------------------------------------------
	nIDs := run.N(40000, 400000)
	for _, rate := range []int{2, 3, 10, 64, 100} {
		rate := rate
		run.Cases(fmt.Sprintf("fraction-%d", rate), 1, func(_ int, rng *verifkit.Rand) {
			d := c10NewDet(rate)
			kept := 0
			for j := 0; j < nIDs; j++ {
				id := rng.Hex(32)
				if j%2 == 1 {
					id = rng.Hex(16)
				}
				if _, k := c10Decide(d, id); k {
					kept++
				}
			}
			p := 1 / float64(rate)
			mean := float64(nIDs) * p
			sigma := math.Sqrt(float64(nIDs) * p * (1 - p))
			run.Count("fraction_ids", int64(nIDs))
			run.Count(fmt.Sprintf("fraction_kept_rate_%d", rate), int64(kept))
			if math.Abs(float64(kept)-mean) > 6*sigma+1 {
				run.Violation("C10/deterministic/kept-fraction", fmt.Sprintf("rate %d: kept %d of %d PRNG ids, expected %.0f +- %.0f (6 sigma)", rate, kept, nIDs, mean, 6*sigma),
					map[string]any{"rate": rate, "ids": nIDs, "kept": kept, "mean": mean, "sigma": sigma})
			}
			run.Nontrivial(fmt.Sprintf("fraction:%d:%d", rate, kept))
		})
	}
}
