//go:build verif

package sample

import (
	"errors"
	"fmt"
	"runtime"
	"sort"
	"strings"
	"sync"
	"sync/atomic"
	"testing"
	"time"

	"github.com/honeycombio/refinery/config"
	"github.com/honeycombio/refinery/internal/peer"
	"github.com/honeycombio/refinery/internal/verifkit"
	"github.com/honeycombio/refinery/logger"
	"github.com/honeycombio/refinery/metrics"
)

// C13: throughput goals scale with the current cluster size.
//
// Lock-step model of (current peer list, installed definitions). The real
// SamplerFactory is driven by batches of concurrent operations — peer-list
// changes delivered through a scripted peer.Peers whose callbacks are invoked
// like RedisPubsubPeers.checkHash / FilePeers do (`go cb()` per registered
// callback, only when the list changed; the FilePeers flavour also calls the
// callback once at registration), lazy sampler creation on goroutine workers with
// their own caches, and reloads (config swap + ClearDynsamplers + workers clear
// their caches). After every batch everything is joined and, holding the factory
// mutex that every SetGoalThroughputPerSec caller holds, the goal of the
// dynsampler behind every throughput sampler a worker holds is compared with
//   UseClusterSize: max(1, floor(goal / len(peers)))      otherwise: goal

// ---- adapters: every unexported identifier of package sample used below ----

// c13Goal reads the goal in force of the dynsampler behind s. ok=false: s is not a
// throughput sampler. identity is the dynsampler pointer (for diagnosis only).
func c13Goal(f *SamplerFactory, s Sampler) (goal float64, identity any, ok bool) {
	f.mutex.Lock()
	defer f.mutex.Unlock()
	switch v := s.(type) {
	case *TotalThroughputSampler:
		return float64(v.dynsampler.GoalThroughputPerSec), v.dynsampler, true
	case *EMAThroughputSampler:
		return float64(v.dynsampler.GoalThroughputPerSec), v.dynsampler, true
	case *WindowedThroughputSampler:
		return v.dynsampler.GoalThroughputPerSec, v.dynsampler, true
	}
	return 0, nil, false
}

func c13Downstream(s Sampler, rule *config.RulesBasedSamplerRule) Sampler {
	rs, ok := s.(*RulesBasedSampler)
	if !ok {
		return nil
	}
	return rs.samplers[rule.String()]
}

func c13FactoryReload(f *SamplerFactory) { f.ClearDynsamplers() }

// ---- scripted peers -----------------------------------------------------------

type c13Peers struct {
	mu        sync.Mutex
	list      []string
	callbacks []func()
	fileStyle bool // FilePeers: RegisterUpdatedPeersCallback invokes the callback immediately
	inflight  sync.WaitGroup
	running   atomic.Int64 // callback goroutines not yet finished
	fired     int

	// faults: GetPeers returns an error for the next failNext calls, and otherwise with
	// probability failProb (suspended while faultsOff). lastObserved = size of the list
	// returned by the last successful call; faultSince = a call failed after the most
	// recent change of the list.
	failNext     int
	failProb     float64
	faultsOff    bool
	frng         *verifkit.Rand
	faults       int
	lastObserved int
	faultSince   bool

	// parking: the parkAt-th GetPeers call from arming returns only after release is
	// closed; it takes its snapshot first and does not hold mu while parked.
	parkAt  int
	parked  chan struct{}
	release chan struct{}
}

// arm makes the nth GetPeers call from now park after taking its snapshot.
func (p *c13Peers) arm(nth int) (parked <-chan struct{}, release chan struct{}) {
	p.mu.Lock()
	defer p.mu.Unlock()
	p.parkAt, p.parked, p.release = nth, make(chan struct{}), make(chan struct{})
	return p.parked, p.release
}

func (p *c13Peers) disarm() {
	p.mu.Lock()
	p.parkAt = 0
	p.mu.Unlock()
}

// current is the driver's view of the membership; it is not a GetPeers call.
func (p *c13Peers) current() int {
	p.mu.Lock()
	defer p.mu.Unlock()
	return len(p.list)
}

// allowed: peer counts the goals may be derived from. Always the current count; if a
// GetPeers call failed after the most recent change the property does not say what the
// node should assume, so the last successfully observed count is accepted too.
func (p *c13Peers) allowed() []int {
	p.mu.Lock()
	defer p.mu.Unlock()
	out := []int{len(p.list)}
	if p.faultSince && p.lastObserved != len(p.list) {
		out = append(out, p.lastObserved)
	}
	return out
}

func (p *c13Peers) setFaults(next int, off bool) {
	p.mu.Lock()
	p.failNext, p.faultsOff = next, off
	p.mu.Unlock()
}

func (p *c13Peers) GetPeers() ([]string, error) {
	p.mu.Lock()
	if p.failNext > 0 || (!p.faultsOff && p.failProb > 0 && p.frng.Chance(p.failProb)) {
		if p.failNext > 0 {
			p.failNext--
		}
		p.faults++
		p.faultSince = true
		p.mu.Unlock()
		return nil, errors.New("scripted peers: peer list unavailable")
	}
	snap := append([]string(nil), p.list...)
	p.lastObserved = len(snap)
	var wait chan struct{}
	if p.parkAt > 0 {
		p.parkAt--
		if p.parkAt == 0 {
			wait = p.release
			close(p.parked)
		}
	}
	p.mu.Unlock()
	if wait != nil {
		<-wait
	}
	return snap, nil
}

// c13RunCallback is the body of one callback goroutine (named so that it can be found
// in a goroutine dump).
func c13RunCallback(p *c13Peers, cb func()) {
	defer p.inflight.Done()
	defer p.running.Add(-1)
	cb()
}

var c13stackBuf = make([]byte, 1<<20) // parked steps run one at a time

// c13CallbacksBlockedOnFactory: every unfinished callback goroutine is waiting for a
// sync.Mutex inside SamplerFactory.updatePeerCounts itself (not inside GetPeers).
func c13CallbacksBlockedOnFactory() bool {
	buf := c13stackBuf[:runtime.Stack(c13stackBuf, true)]
	found := false
	for _, g := range strings.Split(string(buf), "\n\n") {
		if !strings.Contains(g, "sample.c13RunCallback") {
			continue
		}
		found = true
		head, _, _ := strings.Cut(g, "\n")
		if !(strings.Contains(head, "sync.Mutex.Lock") || strings.Contains(head, "semacquire")) ||
			!strings.Contains(g, "updatePeerCounts") || strings.Contains(g, "c13Peers).GetPeers") {
			return false
		}
	}
	return found
}
func (p *c13Peers) GetInstanceID() (string, error) { return "self", nil }
func (p *c13Peers) RegisterUpdatedPeersCallback(cb func()) {
	if p.fileStyle {
		cb()
	}
	p.mu.Lock()
	p.callbacks = append(p.callbacks, cb)
	p.mu.Unlock()
}
func (p *c13Peers) Ready() error { return nil }
func (p *c13Peers) Start() error { return nil }

// set installs a new peer list; as in RedisPubsubPeers.checkHash / FilePeers the
// callbacks run in their own goroutines and only if the (sorted) list changed.
func (p *c13Peers) set(list []string) {
	p.mu.Lock()
	changed := strings.Join(p.list, ",") != strings.Join(list, ",")
	p.list = list
	if changed {
		p.faultSince = false
	}
	cbs := append([]func(){}, p.callbacks...)
	if changed {
		p.fired++
	}
	p.mu.Unlock()
	if !changed {
		return
	}
	for _, cb := range cbs {
		p.inflight.Add(1)
		p.running.Add(1)
		go c13RunCallback(p, cb)
	}
}

// c13ExactCap copies l into a slice without spare capacity (FilePeers.GetPeers appends
// its own address to the slice the config returns).
func c13ExactCap(l []string) []string {
	out := make([]string, len(l))
	copy(out, l)
	return out
}

func c13PeerList(rng *verifkit.Rand, n int) []string {
	perm := rng.Perm(24)
	out := make([]string, 0, n)
	for _, i := range perm[:n] {
		out = append(out, fmt.Sprintf("http://peer-%02d:8081", i))
	}
	sort.Strings(out)
	return out
}

// ---- definitions --------------------------------------------------------------

type c13def struct {
	Kind           string   `json:"kind"` // totalthroughput | emathroughput | windowedthroughput | dynamic
	Goal           int      `json:"goal"`
	UseClusterSize bool     `json:"use_cluster_size"`
	Fields         []string `json:"fields"`
	MaxKeys        int      `json:"max_keys"`
}

var c13kinds = []string{"totalthroughput", "emathroughput", "windowedthroughput"}

func (d *c13def) choice() (*config.V2SamplerChoice, *config.RulesBasedDownstreamSampler) {
	c, ds := &config.V2SamplerChoice{}, &config.RulesBasedDownstreamSampler{}
	fl := append([]string(nil), d.Fields...)
	switch d.Kind {
	case "totalthroughput":
		v := &config.TotalThroughputSamplerConfig{GoalThroughputPerSec: d.Goal, UseClusterSize: d.UseClusterSize, FieldList: fl, MaxKeys: d.MaxKeys, ClearFrequency: config.Duration(time.Minute)}
		c.TotalThroughputSampler, ds.TotalThroughputSampler = v, v
	case "emathroughput":
		v := &config.EMAThroughputSamplerConfig{GoalThroughputPerSec: d.Goal, UseClusterSize: d.UseClusterSize, FieldList: fl, MaxKeys: d.MaxKeys, AdjustmentInterval: config.Duration(time.Minute)}
		c.EMAThroughputSampler, ds.EMAThroughputSampler = v, v
	case "windowedthroughput":
		v := &config.WindowedThroughputSamplerConfig{GoalThroughputPerSec: d.Goal, UseClusterSize: d.UseClusterSize, FieldList: fl, MaxKeys: d.MaxKeys, UpdateFrequency: config.Duration(time.Minute)}
		c.WindowedThroughputSampler, ds.WindowedThroughputSampler = v, v
	case "dynamic":
		v := &config.DynamicSamplerConfig{SampleRate: int64(d.Goal), FieldList: fl, MaxKeys: d.MaxKeys}
		c.DynamicSampler, ds.DynamicSampler = v, v
	}
	return c, ds
}

func (d *c13def) expected(peers int) float64 {
	if !d.UseClusterSize {
		return float64(d.Goal)
	}
	g := d.Goal / peers
	if g < 1 {
		g = 1
	}
	return float64(g)
}

type c13env struct {
	Name  string    `json:"name"`
	Top   *c13def   `json:"top,omitempty"`
	Rules []*c13def `json:"rules,omitempty"`
}

type c13file struct {
	Envs  []*c13env `json:"envs"`
	built map[string]*config.V2SamplerChoice
	rules map[string][]*config.RulesBasedSamplerRule
}

func (f *c13file) build() {
	f.built = map[string]*config.V2SamplerChoice{
		"__default__": {DeterministicSampler: &config.DeterministicSamplerConfig{SampleRate: 1}},
	}
	f.rules = map[string][]*config.RulesBasedSamplerRule{}
	for _, e := range f.Envs {
		if e.Top != nil {
			f.built[e.Name], _ = e.Top.choice()
			continue
		}
		rc := &config.RulesBasedSamplerConfig{}
		for i, d := range e.Rules {
			_, ds := d.choice()
			rc.Rules = append(rc.Rules, &config.RulesBasedSamplerRule{
				Name:       fmt.Sprintf("r%d", i),
				Conditions: []*config.RulesBasedSamplerCondition{{Field: "verif.rule", Operator: config.EQ, Value: fmt.Sprintf("r%d", i)}},
				Sampler:    ds,
			})
		}
		f.rules[e.Name] = rc.Rules
		f.built[e.Name] = &config.V2SamplerChoice{RulesBasedSampler: rc}
	}
}

func (f *c13file) env(name string) *c13env {
	for _, e := range f.Envs {
		if e.Name == name {
			return e
		}
	}
	return nil
}

var c13goals = []int{1, 2, 3, 7, 10, 100, 101, 999, 1000, 12345}

func c13genDef(rng *verifkit.Rand) *c13def {
	d := &c13def{Kind: c13kinds[rng.Intn(len(c13kinds))], Goal: c13goals[rng.Intn(len(c13goals))], UseClusterSize: rng.Chance(0.6),
		Fields:  [][]string{{"service.name"}, {"http.method", "status"}, {"status", "http.method"}, {"root.url"}}[rng.Intn(4)],
		MaxKeys: verifkit.Pick(rng, 0, 100)}
	if rng.Chance(0.1) {
		d.Kind = "dynamic"
		d.UseClusterSize = false
	}
	return d
}

// c13genFile: 2-4 environments; throughput samplers top-level and downstream, with
// and without UseClusterSize, including pairs of definitions of one environment
// that differ only in UseClusterSize.
func c13genFile(rng *verifkit.Rand, prev *c13file) *c13file {
	f := &c13file{}
	n := rng.Range(2, 4)
	for i := 0; i < n; i++ {
		e := &c13env{Name: fmt.Sprintf("env-%d", i)}
		var old *c13env
		if prev != nil {
			old = prev.env(e.Name)
		}
		switch {
		case old != nil && rng.Chance(0.5):
			// reload of an existing environment: keep the shape, change goal and/or UseClusterSize of some definitions
			tweak := func(d *c13def) *c13def {
				c := *d
				if rng.Chance(0.5) && c.Kind != "dynamic" {
					c.UseClusterSize = !c.UseClusterSize
				}
				if rng.Chance(0.4) {
					c.Goal = c13goals[rng.Intn(len(c13goals))]
				}
				return &c
			}
			if old.Top != nil {
				e.Top = tweak(old.Top)
			}
			for _, d := range old.Rules {
				e.Rules = append(e.Rules, tweak(d))
			}
		case rng.Chance(0.45):
			e.Top = c13genDef(rng)
		default:
			for k, kk := 0, rng.Range(1, 3); k < kk; k++ {
				e.Rules = append(e.Rules, c13genDef(rng))
			}
			if rng.Chance(0.5) {
				// a twin that differs only in UseClusterSize
				b := e.Rules[rng.Intn(len(e.Rules))]
				if b.Kind != "dynamic" {
					t := *b
					t.UseClusterSize = !b.UseClusterSize
					e.Rules = append(e.Rules, &t)
					verifkit.Shuffle(rng, e.Rules)
				}
			}
		}
		f.Envs = append(f.Envs, e)
	}
	f.build()
	return f
}

// c13wasClusterSized: did an earlier rules file have, at the same place (environment,
// top-level/downstream), the same definition but with UseClusterSize?
func c13wasClusterSized(earlier []*c13file, env string, downstream bool, d *c13def) bool {
	same := func(o *c13def) bool {
		a, b := append([]string(nil), o.Fields...), append([]string(nil), d.Fields...)
		sort.Strings(a)
		sort.Strings(b)
		return o.Kind == d.Kind && o.Goal == d.Goal && o.UseClusterSize && strings.Join(a, "\x00") == strings.Join(b, "\x00")
	}
	for _, f := range earlier {
		e := f.env(env)
		if e == nil {
			continue
		}
		if !downstream && e.Top != nil && same(e.Top) {
			return true
		}
		if downstream {
			for _, o := range e.Rules {
				if same(o) {
					return true
				}
			}
		}
	}
	return false
}

// ---- driver -------------------------------------------------------------------

type c13step struct {
	Batch int    `json:"batch"`
	Op    string `json:"op"` // peers | get | reload
	N     int    `json:"peers,omitempty"`
	W     int    `json:"worker,omitempty"`
	Env   string `json:"env,omitempty"`
	Late  bool   `json:"after_reload,omitempty"`
	Nth   int    `json:"parked_getpeers_call,omitempty"`
}

type c13witness struct {
	PeerStyle  string     `json:"peer_callback_style"`
	Files      []*c13file `json:"rules_files_in_order"`
	History    []c13step  `json:"history"`
	Peers      int        `json:"current_peers"`
	Worker     int        `json:"worker"`
	Env        string     `json:"env"`
	Rule       int        `json:"rule"`
	Def        *c13def    `json:"definition"`
	Got        float64    `json:"goal_in_force"`
	Want       float64    `json:"goal_expected"`
	SharedWith []string   `json:"dynsampler_also_behind,omitempty"`
}

// c13parkedCreation: one worker lazily creates a sampler; the nth GetPeers call made by
// that creation is parked after it took its snapshot; the driver changes the membership
// and lets the callbacks run until they have finished or are blocked on the factory
// mutex (held by the creation in the unchanged code); then the parked call is released
// and everything is joined. Time is only used to bound the detection of those states.
func c13parkedCreation(run *verifkit.Run, rng *verifkit.Rand, batch int, peers *c13Peers, factory *SamplerFactory,
	file *c13file, caches []map[string]Sampler, history *[]c13step, kinds *strings.Builder) {
	// a (worker, environment) whose sampler does not exist yet on that worker
	type cand struct {
		w   int
		env *c13env
	}
	var cands []cand
	for w := range caches {
		for _, e := range file.Envs {
			if _, ok := caches[w][e.Name]; !ok {
				cands = append(cands, cand{w, e})
			}
		}
	}
	if len(cands) == 0 {
		run.Count("parked_steps_skipped_everything_cached", 1)
		return
	}
	c := cands[rng.Intn(len(cands))]
	// the creation calls GetPeers once per sampler it creates: downstream ones first, the
	// top-level (or rules) sampler last
	calls := 1 + len(c.env.Rules)
	nth := calls
	if rng.Chance(0.3) {
		nth = rng.Range(1, calls)
	}
	cur := peers.current()
	n := cur
	for n == cur {
		n = verifkit.Pick(rng, 1, 2, 3, 4, 5, 7, 12)
	}
	peers.setFaults(0, true)
	defer peers.setFaults(0, false)
	*history = append(*history, c13step{Batch: batch, Op: "get-with-parked-GetPeers", W: c.w, Env: c.env.Name, N: n, Nth: nth})
	fmt.Fprintf(kinds, "K%d/%d;", nth, calls)

	parked, release := peers.arm(nth)
	done := make(chan struct{})
	go func() {
		defer close(done)
		caches[c.w][c.env.Name] = factory.GetSamplerImplementationForKey(c.env.Name)
	}()
	select {
	case <-parked:
	case <-done:
		peers.disarm()
		run.Count("parked_steps_creation_made_fewer_GetPeers_calls", 1)
		return
	case <-time.After(30 * time.Second):
		peers.disarm()
		close(release)
		<-done
		run.Inconclusive("parked creation: GetPeers call not reached within the bound")
		return
	}
	peers.set(c13PeerList(rng, n))
	state := "undetermined"
	for deadline := time.Now().Add(10 * time.Second); time.Now().Before(deadline); {
		if peers.running.Load() == 0 {
			state = "callbacks_finished_before_release"
			break
		}
		if c13CallbacksBlockedOnFactory() {
			state = "callbacks_blocked_on_factory_mutex"
			break
		}
		time.Sleep(100 * time.Microsecond) // pacing of the poll only
	}
	run.Count("parked_steps_"+state, 1)
	close(release)
	<-done
	peers.inflight.Wait()
}

// c13faultyCreation: from a joined state one worker lazily creates a sampler while the
// GetPeers calls made by that creation fail (all of them, or a PRNG-chosen number of the
// first ones). Nothing else runs, so no later successful call can hide the effect.
func c13faultyCreation(run *verifkit.Run, rng *verifkit.Rand, batch int, peers *c13Peers, factory *SamplerFactory,
	file *c13file, caches []map[string]Sampler, history *[]c13step, kinds *strings.Builder) {
	type cand struct {
		w   int
		env *c13env
	}
	var cands []cand
	for w := range caches {
		for _, e := range file.Envs {
			if _, ok := caches[w][e.Name]; !ok {
				cands = append(cands, cand{w, e})
			}
		}
	}
	if len(cands) == 0 {
		run.Count("faulty_steps_skipped_everything_cached", 1)
		return
	}
	c := cands[rng.Intn(len(cands))]
	calls := 1 + len(c.env.Rules)
	nfail := calls
	if rng.Chance(0.3) {
		nfail = rng.Range(1, calls)
	}
	*history = append(*history, c13step{Batch: batch, Op: "get-while-GetPeers-fails", W: c.w, Env: c.env.Name, Nth: nfail})
	fmt.Fprintf(kinds, "F%d/%d;", nfail, calls)
	peers.setFaults(nfail, true)
	caches[c.w][c.env.Name] = factory.GetSamplerImplementationForKey(c.env.Name)
	peers.setFaults(0, false)
	run.Count("faulty_creation_steps", 1)
}

func TestVerif_C13(t *testing.T) {
	run := verifkit.Start(t, "C13", "sample")
	defer run.Finish()
	run.Rule("each case = a rules file with 2-4 environments of throughput samplers (Total/EMA/Windowed; top-level and downstream of rules; with and without UseClusterSize, incl. same-environment twins differing only in UseClusterSize; goals 1..12345) and a history of 6-20 batches; a batch runs concurrently: peer-list changes (1..12 peers, same-size replacements) delivered by `go callback()`, lazy sampler creation on 1-8 goroutine workers with own caches, optionally a reload (new goals / UseClusterSize flipped) racing them; after 15% of batches one extra lazy creation runs whose nth GetPeers call is parked (scripted peers) after taking its snapshot while a membership change is made and its callbacks finish or block on the factory mutex, then released; 35% of scripted-peers cases make GetPeers fail for PRNG-chosen calls and after 15% of batches one lazy creation runs while all (or the first k) of its GetPeers calls fail; 25% of cases use the REAL peer.FilePeers over the MockConfig peer list, which changes only by reload (followed by ClearDynsamplers and lazy re-creation) and never fires callbacks; after each batch / parked / faulty step everything is joined and every throughput sampler held by a worker is compared with the model; non-trivial = a sampler with UseClusterSize was checked with >1 peers after at least one peer change; distinct = abstract batch-kind history")
	run.Assume("every writer of a live dynsampler's GoalThroughputPerSec holds SamplerFactory.mutex (updatePeerCounts, getSharedDynsamplerAndRecorder), so reading it under that mutex at a joined point is race-free")
	run.Assume("scripted peer.Peers: callbacks are invoked on membership change in new goroutines; GetPeers returns the current non-empty list or an error. Where a GetPeers call failed after the most recent membership change the property does not fix what count the node must assume: the current count and the last successfully observed count are both accepted")

	run.Cases("histories", run.N(200, 10000), func(i int, rng *verifkit.Rand) { c13case(run, rng, i < 2) })
}

func c13case(run *verifkit.Run, rng *verifkit.Rand, sample bool) {
	peers := &c13Peers{fileStyle: rng.Chance(0.4), list: c13PeerList(rng, verifkit.Pick(rng, 1, 1, 2, 3, 5)), frng: rng.Fork("faults"), lastObserved: 1}
	style := "redis(go cb)"
	if peers.fileStyle {
		style = "file(register calls cb, then go cb)"
	}
	if rng.Chance(0.35) {
		peers.failProb = 0.15
		style += "+GetPeers faults"
	}
	file := c13genFile(rng, nil)
	files := []*c13file{file}
	mc := &config.MockConfig{Samplers: file.built}
	// realFile: the real peer.FilePeers over the configuration; its peer list changes only
	// through a reload and it never invokes callbacks after start-up.
	realFile := rng.Chance(0.25)
	var factoryPeers peer.Peers = peers
	if realFile {
		style = "real peer.FilePeers"
		mc.PeerManagementType, mc.GetPeerListenAddrVal, mc.RedisIdentifier = "file", "10.244.0.114:8081", "self"
		mc.GetPeersVal = c13ExactCap(c13PeerList(rng, verifkit.Pick(rng, 0, 1, 2, 4)))
		fp := &peer.FilePeers{Cfg: mc, Logger: &logger.NullLogger{}, Metrics: &metrics.NullMetrics{}}
		if err := fp.Start(); err != nil {
			run.Inconclusive("FilePeers.Start: " + err.Error())
			return
		}
		factoryPeers = fp
	}
	allowedCounts := func() []int {
		if realFile {
			return []int{len(mc.GetPeers()) + 1} // configured peers + this node
		}
		return peers.allowed()
	}
	factory := &SamplerFactory{Config: mc, Logger: &logger.NullLogger{}, Metrics: &metrics.NullMetrics{}, Peers: factoryPeers}
	if err := factory.Start(); err != nil {
		run.Inconclusive("factory.Start: " + err.Error())
		return
	}
	defer factory.Stop()

	nworkers := verifkit.Pick(rng, 1, 2, 3, 4, 8)
	caches := make([]map[string]Sampler, nworkers)
	for i := range caches {
		caches[i] = map[string]Sampler{}
	}
	var history []c13step
	var kinds strings.Builder
	changedOnce := false
	interesting := false

	// verify: quiescent point, compare every live throughput sampler with the model
	verify := func() {
		allowed := allowedCounts()
		npeers := allowed[0]
		type live struct {
			w    int
			env  string
			rule int
			def  *c13def
			goal float64
			id   any
		}
		var lives []live
		for w := range caches {
			names := make([]string, 0, len(caches[w]))
			for n := range caches[w] {
				names = append(names, n)
			}
			sort.Strings(names)
			for _, n := range names {
				e := file.env(n)
				if e == nil {
					continue // __default__ deterministic
				}
				s := caches[w][n]
				if e.Top != nil {
					if g, id, ok := c13Goal(factory, s); ok {
						lives = append(lives, live{w, n, -1, e.Top, g, id})
					} else if e.Top.Kind != "dynamic" {
						run.Violation("C13/harness/sampler-type-unexpected", fmt.Sprintf("%T for a %s definition", s, e.Top.Kind), history)
					}
					continue
				}
				for r, d := range e.Rules {
					ds := c13Downstream(s, file.rules[n][r])
					if g, id, ok := c13Goal(factory, ds); ok {
						lives = append(lives, live{w, n, r, d, g, id})
					} else if d.Kind != "dynamic" {
						run.Violation("C13/harness/sampler-type-unexpected", fmt.Sprintf("%T for a %s definition", ds, d.Kind), history)
					}
				}
			}
		}
		for _, l := range lives {
			want := l.def.expected(npeers)
			run.Count("goals_checked", 1)
			if l.def.UseClusterSize {
				run.Count("goals_checked_with_cluster_size", 1)
				if npeers > 1 && changedOnce {
					interesting = true
				}
			}
			ok := false
			for _, c := range allowed {
				ok = ok || l.goal == l.def.expected(c)
			}
			if ok {
				if l.goal != want {
					run.Count("goals_accepted_for_last_observed_count_after_GetPeers_fault", 1)
				}
				continue
			}
			// diagnose: is the dynsampler also behind a definition with the other UseClusterSize?
			var sharedWith []string
			otherMode := false
			for _, o := range lives {
				if o.id == l.id && (o.env != l.env || o.rule != l.rule) {
					sharedWith = append(sharedWith, fmt.Sprintf("%s/rule%d(UseClusterSize=%v)", o.env, o.rule, o.def.UseClusterSize))
					if o.def.UseClusterSize != l.def.UseClusterSize {
						otherMode = true
					}
				}
			}
			wit := &c13witness{PeerStyle: style, Files: files, History: history, Peers: npeers, Worker: l.w, Env: l.env, Rule: l.rule,
				Def: l.def, Got: l.goal, Want: want, SharedWith: sharedWith}
			switch {
			case !l.def.UseClusterSize && otherMode:
				run.Violation("C13/fixed-goal-scaled/dynsampler-shared-with-UseClusterSize-definition",
					fmt.Sprintf("%s without UseClusterSize, goal %d, runs with goal %v at %d peers: its dynsampler is also used by a definition with UseClusterSize", l.def.Kind, l.def.Goal, l.goal, npeers), wit)
			case l.def.UseClusterSize && otherMode:
				run.Violation("C13/cluster-goal-wrong/dynsampler-shared-with-fixed-goal-definition",
					fmt.Sprintf("%s with UseClusterSize, goal %d, runs with goal %v at %d peers (want %v): its dynsampler is also used by a definition without UseClusterSize", l.def.Kind, l.def.Goal, l.goal, npeers, want), wit)
			case !l.def.UseClusterSize && c13wasClusterSized(files[:len(files)-1], l.env, l.rule >= 0, l.def):
				run.Violation("C13/fixed-goal-scaled/UseClusterSize-switched-off-by-reload",
					fmt.Sprintf("%s without UseClusterSize, goal %d, runs with goal %v at %d peers: before a reload the same definition had UseClusterSize", l.def.Kind, l.def.Goal, l.goal, npeers), wit)
			case l.def.UseClusterSize:
				run.Violation("C13/cluster-goal-wrong/"+l.def.Kind,
					fmt.Sprintf("%s with UseClusterSize, goal %d, runs with goal %v at %d peers, want %v", l.def.Kind, l.def.Goal, l.goal, npeers, want), wit)
			default:
				run.Violation("C13/fixed-goal-wrong/"+l.def.Kind,
					fmt.Sprintf("%s without UseClusterSize, goal %d, runs with goal %v at %d peers", l.def.Kind, l.def.Goal, l.goal, npeers), wit)
			}
		}
	}

	batches := rng.Range(6, 20)
	for b := 0; b < batches; b++ {
		// ---- plan the batch from rng only
		var peerSets [][]string
		for k, kk := 0, verifkit.Pick(rng, 0, 0, 1, 1, 1, 2, 3); k < kk && !realFile; k++ {
			n := verifkit.Pick(rng, 1, 2, 2, 3, 3, 4, 5, 7, 12)
			peerSets = append(peerSets, c13PeerList(rng, n))
			history = append(history, c13step{Batch: b, Op: "peers", N: n})
		}
		reload := rng.Chance(0.2) || (realFile && rng.Chance(0.3))
		var newFilePeers []string
		reloadPeers := false
		if reload {
			if !realFile || rng.Chance(0.5) {
				file = c13genFile(rng, file)
				files = append(files, file)
			}
			st := c13step{Batch: b, Op: "reload"}
			if realFile && rng.Chance(0.8) {
				// PeerManagement.Peers changed by the reload
				reloadPeers = true
				newFilePeers = c13ExactCap(c13PeerList(rng, verifkit.Pick(rng, 0, 1, 2, 3, 4, 6, 11)))
				st.Op, st.N = "reload-with-peer-list", len(newFilePeers)+1
			}
			history = append(history, st)
		}
		type get struct {
			env  string
			late bool
		}
		perWorker := make([][]get, nworkers)
		for w := range perWorker {
			for k, kk := 0, rng.Intn(4); k < kk; k++ {
				g := get{env: fmt.Sprintf("env-%d", rng.Intn(4)), late: reload && rng.Bool()}
				perWorker[w] = append(perWorker[w], g)
			}
			// early gets first, late (post-barrier) gets afterwards
			sort.SliceStable(perWorker[w], func(i, j int) bool { return !perWorker[w][i].late && perWorker[w][j].late })
			for _, g := range perWorker[w] {
				history = append(history, c13step{Batch: b, Op: "get", W: w, Env: g.env, Late: g.late})
			}
		}
		fmt.Fprintf(&kinds, "p%d%sg%d;", len(peerSets), map[bool]string{true: "R", false: ""}[reload], func() int {
			n := 0
			for _, g := range perWorker {
				if len(g) > 0 {
					n++
				}
			}
			return n
		}())

		// ---- run it concurrently
		reloaded := make(chan struct{})
		var wg sync.WaitGroup
		for w := 0; w < nworkers; w++ {
			wg.Add(1)
			go func(w int) {
				defer wg.Done()
				cleared := !reload
				lookup := func(env string) {
					if _, ok := caches[w][env]; !ok {
						caches[w][env] = factory.GetSamplerImplementationForKey(env)
					}
				}
				for _, g := range perWorker[w] {
					if g.late && !cleared {
						<-reloaded
						clear(caches[w])
						cleared = true
					}
					lookup(g.env)
				}
				if !cleared {
					<-reloaded
					clear(caches[w])
				}
			}(w)
		}
		wg.Add(1)
		go func() {
			defer wg.Done()
			for _, ps := range peerSets {
				peers.set(ps)
			}
		}()
		if reload {
			mc.Mux.Lock()
			mc.Samplers = file.built
			if reloadPeers {
				mc.GetPeersVal = newFilePeers
			}
			mc.Mux.Unlock()
			c13FactoryReload(factory)
			close(reloaded)
		}
		wg.Wait()
		peers.inflight.Wait()
		if len(peerSets) > 0 || reloadPeers {
			changedOnce = true
		}

		verify()

		if !realFile && rng.Chance(0.15) {
			c13faultyCreation(run, rng, b, peers, factory, file, caches, &history, &kinds)
			verify()
		}
		if !realFile && rng.Chance(0.15) {
			c13parkedCreation(run, rng, b, peers, factory, file, caches, &history, &kinds)
			changedOnce = true
			verify()
		}
	}
	run.Count("batches", int64(batches))
	run.Count("peer_callbacks_fired", int64(peers.fired))
	run.Count("GetPeers_faults_injected", int64(peers.faults))
	if realFile {
		run.Count("cases_with_real_FilePeers", 1)
	}
	if interesting {
		run.Nontrivial(kinds.String())
	}
	if sample {
		run.Sample(map[string]any{"peer_style": style, "workers": nworkers, "rules_files": files, "history": history})
	}
}
