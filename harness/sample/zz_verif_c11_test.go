//go:build verif

package sample

import (
	"fmt"
	"math"
	"sort"
	"strconv"
	"strings"
	"testing"
	"time"

	dynsampler "github.com/honeycombio/dynsampler-go"
	"github.com/honeycombio/refinery/config"
	"github.com/honeycombio/refinery/internal/verifkit"
	"github.com/honeycombio/refinery/logger"
	"github.com/honeycombio/refinery/metrics"
	"github.com/honeycombio/refinery/types"
)

// C11: dynamic sample keys depend only on the trace's distinct field values.
//
// Monitors, for each of the five dynsampler-backed samplers (dynamic, emadynamic,
// emathroughput, windowedthroughput, totalthroughput), on the key and rate returned by
// GetSampleRate:
//   metamorphic   key(A) == key(permutation of A's spans)
//                 key(A) == key(A + duplicated spans)                      (no UseTraceLength)
//                 key(A + dups1) == key(A + dups2) for equal span counts   (UseTraceLength)
//                 key(A) == key(A') where A' spreads the same per-field value sets
//                 differently over the same number of spans (root span unchanged)
//                 key(A) asked again after other traces went through the same sampler
//   separation    all configured fields present in A and B, values free of the key
//                 delimiters, independent model says some field's value set differs
//                 => key(A) != key(B)
//   rate/keep     rate >= 1 always; rate == 1 => kept; the number of kept traces over a
//                 fixed number of calls is within 6 sigma of sum(1/rate_i)
//
// The model is used only to decide "the value sets differ"; it never predicts a key.

// ---- adapters to the code under test ---------------------------------------

type c11sampler struct {
	name string
	s    Sampler
	stop func()
}

type c11tuning struct {
	goalRate   int
	initial    int
	throughput int
	interval   time.Duration // 0 = defaults (tens of seconds: rates do not move during a case)
}

func c11NewSamplers(fields []string, useLen bool, tn c11tuning) []c11sampler {
	lg := &logger.NullLogger{}
	mt := &metrics.NullMetrics{}
	iv := config.Duration(tn.interval)
	dyn := &DynamicSampler{Config: &config.DynamicSamplerConfig{SampleRate: int64(tn.goalRate), FieldList: fields, UseTraceLength: useLen, ClearFrequency: iv}, Logger: lg, Metrics: mt}
	ema := &EMADynamicSampler{Config: &config.EMADynamicSamplerConfig{GoalSampleRate: tn.goalRate, FieldList: fields, UseTraceLength: useLen, AdjustmentInterval: iv}, Logger: lg, Metrics: mt}
	emat := &EMAThroughputSampler{Config: &config.EMAThroughputSamplerConfig{GoalThroughputPerSec: tn.throughput, InitialSampleRate: tn.initial, FieldList: fields, UseTraceLength: useLen, AdjustmentInterval: iv}, Logger: lg, Metrics: mt}
	win := &WindowedThroughputSampler{Config: &config.WindowedThroughputSamplerConfig{GoalThroughputPerSec: tn.throughput, FieldList: fields, UseTraceLength: useLen, UpdateFrequency: iv, LookbackFrequency: 4 * iv}, Logger: lg, Metrics: mt}
	tot := &TotalThroughputSampler{Config: &config.TotalThroughputSamplerConfig{GoalThroughputPerSec: tn.throughput, FieldList: fields, UseTraceLength: useLen, ClearFrequency: iv}, Logger: lg, Metrics: mt}
	out := []c11sampler{
		{"dynamic", dyn, func() { dyn.dynsampler.Stop() }},
		{"emadynamic", ema, func() { ema.dynsampler.Stop() }},
		{"emathroughput", emat, func() { emat.dynsampler.Stop() }},
		{"windowedthroughput", win, func() { win.dynsampler.Stop() }},
		{"totalthroughput", tot, func() { tot.dynsampler.Stop() }},
	}
	for _, s := range out {
		if err := s.s.Start(); err != nil {
			panic(fmt.Sprintf("verif harness: cannot start %s: %v", s.name, err))
		}
	}
	return out
}

// c11NewScripted returns a DynamicSampler whose rate source is a scripted stub
// (DynamicSampler is the only one holding its dynsampler through the interface).
func c11NewScripted(fields []string, useLen bool, stub dynsampler.Sampler) *DynamicSampler {
	d := &DynamicSampler{Config: &config.DynamicSamplerConfig{SampleRate: 10, FieldList: fields, UseTraceLength: useLen},
		Logger: &logger.NullLogger{}, Metrics: &metrics.NullMetrics{}, dynsampler: stub}
	if err := d.Start(); err != nil {
		panic(err)
	}
	return d
}

var c11cfg = &config.MockConfig{}

func c11RealTrace(tr c11trace) *types.Trace {
	t := &types.Trace{TraceID: "c11"}
	for i, sp := range tr.Spans {
		m := make(map[string]any, len(sp))
		for k, v := range sp {
			m[k] = v
		}
		s := &types.Span{TraceID: "c11", Event: &types.Event{Data: types.NewPayload(c11cfg, m)}}
		t.AddSpan(s)
		if i == tr.Root {
			s.IsRoot = true
			t.RootSpan = s
		}
	}
	return t
}

// ---- scripted dynsampler ----------------------------------------------------

type c11stub struct {
	rates []int
	i     int
}

func (s *c11stub) Start() error { return nil }
func (s *c11stub) Stop() error  { return nil }
func (s *c11stub) GetSampleRate(k string) int {
	return s.GetSampleRateMulti(k, 1)
}
func (s *c11stub) GetSampleRateMulti(string, int) int {
	r := s.rates[s.i%len(s.rates)]
	s.i++
	return r
}
func (s *c11stub) SaveState() ([]byte, error)         { return nil, nil }
func (s *c11stub) LoadState([]byte) error             { return nil }
func (s *c11stub) GetMetrics(string) map[string]int64 { return map[string]int64{} }

// ---- traces -----------------------------------------------------------------

type c11span map[string]any

type c11trace struct {
	Spans []c11span
	Root  int // index of the root span, -1 = no root
}

func (t c11trace) clone() c11trace {
	out := c11trace{Root: t.Root, Spans: make([]c11span, len(t.Spans))}
	for i, sp := range t.Spans {
		m := c11span{}
		for k, v := range sp {
			m[k] = v
		}
		out.Spans[i] = m
	}
	return out
}

func c11show(v any) string {
	switch x := v.(type) {
	case nil:
		return "nil"
	case string:
		return strconv.Quote(x)
	default:
		return fmt.Sprintf("%T(%v)", v, v)
	}
}

func (t c11trace) witness() any {
	spans := make([]string, len(t.Spans))
	for i, sp := range t.Spans {
		keys := make([]string, 0, len(sp))
		for k := range sp {
			keys = append(keys, k)
		}
		sort.Strings(keys)
		var b strings.Builder
		if i == t.Root {
			b.WriteString("ROOT ")
		}
		for _, k := range keys {
			fmt.Fprintf(&b, "%s=%s ", k, c11show(sp[k]))
		}
		spans[i] = strings.TrimSpace(b.String())
	}
	return spans
}

var c11cleanValues = []any{
	"a", "b", "c", "ab", "bc", "abc", "aab", "GET", "POST", "/x", "/y/z", "200", "500", "20", "0", "", "true", "x y", "<nil>", "1.5",
	int64(0), int64(1), int64(2), int64(200), int64(500), int64(-1), int64(1) << 40,
	1.5, 2.0, 0.25, -3.75, 100.0,
	true, false,
}

var c11dirtyValues = []any{"a,b", "x•y", "•", ",", "a•,b", nil, "a•", ",3"}

func c11GenValue(rng *verifkit.Rand, dirty bool) any {
	if dirty && rng.Chance(0.35) {
		return c11dirtyValues[rng.Intn(len(c11dirtyValues))]
	}
	return c11cleanValues[rng.Intn(len(c11cleanValues))]
}

// field names: plain and root.-prefixed, including names whose first letters are those of
// the prefix itself and names that look like the prefix.
var c11fieldPool = []string{
	"f0", "f1", "f2", "root.f0", "root.f1", "root.g",
	"operation", "team_id", "region", ".hidden", "root", "rootx", "roots.a", "r", "o.k", "t",
	"root.operation", "root.team_id", "root.region", "root.root", "root.root.cause", "root.o", "root.t.x", "root..x", "root.r", "root.rootx", "root.other",
}

// c11SpanNames: the span field names a case uses = what the configured fields read, a
// few more from the pool, and "other".
func c11SpanNames(rng *verifkit.Rand, fields []string) []string {
	seen := map[string]bool{}
	var out []string
	add := func(f string) {
		b, _ := c11Bare(f)
		if b != "" && !seen[b] {
			seen[b] = true
			out = append(out, b)
		}
	}
	for _, f := range fields {
		add(f)
	}
	for k := 0; k < 2; k++ {
		add(c11fieldPool[rng.Intn(len(c11fieldPool))])
	}
	add("other")
	return out
}

func c11GenFields(rng *verifkit.Rand) []string {
	n := rng.Range(1, 4)
	out := make([]string, 0, n)
	for len(out) < n {
		if rng.Chance(0.45) { // the original small pool keeps collisions between list entries frequent
			out = append(out, c11fieldPool[rng.Intn(6)])
		} else {
			out = append(out, c11fieldPool[rng.Intn(len(c11fieldPool))])
		}
	}
	return out
}

func c11Bare(f string) (string, bool) {
	if strings.HasPrefix(f, "root.") {
		return f[len("root."):], true
	}
	return f, false
}

// c11LongFamily: 2-3 distinct strings of equal length 257..2000 sharing a prefix of at least
// 256 bytes, and one with the same prefix but another length. Free of the key delimiters.
func c11LongFamily(rng *verifkit.Rand) []any {
	unit := verifkit.Pick(rng, "SELECT * FROM orders WHERE customer_id = 4711 AND ", "https://api.example.com/v1/accounts/4711/items?cursor=", "x")
	total := verifkit.Pick(rng, 257, 258, 300, 512, 1000, 2000, rng.Range(257, 2000))
	tailLen := rng.Range(1, 4)
	if total-tailLen < 256 {
		tailLen = total - 256
	}
	prefix := strings.Repeat(unit, total/len(unit)+1)[:total-tailLen]
	var out []any
	seen := map[string]bool{}
	for len(out) < rng.Range(2, 3) {
		tail := rng.Hex(tailLen)
		if !seen[tail] {
			seen[tail] = true
			out = append(out, prefix+tail)
		}
	}
	return append(out, prefix+rng.Hex(tailLen+1))
}

// c11LongSibling: same length, same first len-3 bytes, different tail.
func c11LongSibling(rng *verifkit.Rand, s string) string {
	for {
		t := s[:len(s)-3] + rng.Hex(3)
		if t != s {
			return t
		}
	}
}

func c11GenTrace(rng *verifkit.Rand, fields []string, dirty bool) c11trace {
	n := rng.Range(1, 8)
	tr := c11trace{Root: -1, Spans: make([]c11span, n)}
	if rng.Chance(0.75) {
		tr.Root = rng.Intn(n)
	}
	for i := range tr.Spans {
		tr.Spans[i] = c11span{}
	}
	// few values per field so that duplicates across spans are common
	for _, name := range c11SpanNames(rng, fields) {
		pool := make([]any, rng.Range(1, 3))
		for j := range pool {
			pool[j] = c11GenValue(rng, dirty)
		}
		p := verifkit.Pick(rng, 0.3, 0.6, 0.9)
		if rng.Chance(0.12) {
			// long values (SQL, URLs) that share a long prefix: same length with different
			// tails, plus one of another length as a control
			pool = c11LongFamily(rng)
			p = 0.9
		}
		for i := range tr.Spans {
			if rng.Chance(p) {
				tr.Spans[i][name] = pool[rng.Intn(len(pool))]
			}
		}
	}
	// usually make every configured field present
	if rng.Chance(0.85) {
		for _, f := range fields {
			bare, isRoot := c11Bare(f)
			if isRoot {
				if tr.Root < 0 {
					tr.Root = rng.Intn(n)
				}
				if _, ok := tr.Spans[tr.Root][bare]; !ok {
					tr.Spans[tr.Root][bare] = c11GenValue(rng, dirty)
				}
			} else if !c11Present(tr, f) {
				tr.Spans[rng.Intn(n)][bare] = c11GenValue(rng, dirty)
			}
		}
	}
	return tr
}

// a wide trace: up to 99 distinct (field list entry, value) pairs over the non-root
// configured fields, most often exactly 99 (the last count the property speaks about).
func c11GenWideTrace(rng *verifkit.Rand, fields []string) (c11trace, int) {
	weight := map[string]int{} // how many list entries name this non-root field
	var names []string
	for _, f := range fields {
		if _, isRoot := c11Bare(f); !isRoot {
			if weight[f] == 0 {
				names = append(names, f)
			}
			weight[f]++
		}
	}
	target := verifkit.Pick(rng, 99, 99, 99, 99, 98, 97, 90, 60)
	n := rng.Range(20, 60)
	tr := c11trace{Root: -1, Spans: make([]c11span, n)}
	for i := range tr.Spans {
		tr.Spans[i] = c11span{"other": int64(i)}
	}
	if rng.Chance(0.7) {
		tr.Root = rng.Intn(n)
		for j, name := range c11SpanNames(rng, fields) {
			if name != "other" {
				tr.Spans[tr.Root][name] = verifkit.Pick[any](rng, "rootval", int64(7+j), true, "r"+strconv.Itoa(j))
			}
		}
	}
	count := func() int {
		c := 0
		for _, f := range names {
			c += weight[f] * len(c11ValueSet(tr, f))
		}
		return c
	}
	involved := count()
	for next := 0; len(names) > 0; next++ {
		f := names[rng.Intn(len(names))]
		if involved+weight[f] > target {
			// try the lightest field before giving up
			ok := false
			for _, g := range names {
				if involved+weight[g] <= target {
					f, ok = g, true
					break
				}
			}
			if !ok {
				break
			}
		}
		var v any
		switch rng.Intn(3) {
		case 0:
			v = int64(1000 + next)
		case 1:
			v = "v" + strconv.Itoa(next)
		default:
			v = float64(next) + 0.5
		}
		// put it on a span that lacks the field, else on a new span
		placed := false
		for _, i := range rng.Perm(len(tr.Spans)) {
			if _, has := tr.Spans[i][f]; !has {
				tr.Spans[i][f] = v
				placed = true
				break
			}
		}
		if !placed {
			tr.Spans = append(tr.Spans, c11span{f: v})
		}
		involved += weight[f]
	}
	return tr, count()
}

func c11Permute(rng *verifkit.Rand, tr c11trace) c11trace {
	p := rng.Perm(len(tr.Spans))
	out := c11trace{Root: -1, Spans: make([]c11span, len(tr.Spans))}
	for to, from := range p {
		out.Spans[to] = tr.Spans[from]
		if from == tr.Root {
			out.Root = to
		}
	}
	return out
}

// c11Duplicate appends extra copies of existing spans (never a second root).
func c11Duplicate(rng *verifkit.Rand, tr c11trace, extra int) c11trace {
	out := tr.clone()
	for i := 0; i < extra; i++ {
		src := tr.Spans[rng.Intn(len(tr.Spans))]
		m := c11span{}
		for k, v := range src {
			m[k] = v
		}
		// insert at a random position after keeping the root index right
		pos := rng.Intn(len(out.Spans) + 1)
		out.Spans = append(out.Spans, nil)
		copy(out.Spans[pos+1:], out.Spans[pos:])
		out.Spans[pos] = m
		if out.Root >= pos {
			out.Root++
		}
	}
	return out
}

// c11Redistribute keeps the root span, the span count and every field's value set, but
// spreads the values differently (and with different multiplicities) over the other spans.
func c11Redistribute(rng *verifkit.Rand, tr c11trace) c11trace {
	out := tr.clone()
	var others []int
	for i := range out.Spans {
		if i != out.Root {
			others = append(others, i)
		}
	}
	if len(others) == 0 {
		return out
	}
	names := map[string]bool{}
	for _, i := range others {
		for k := range out.Spans[i] {
			names[k] = true
		}
	}
	sorted := make([]string, 0, len(names))
	for k := range names {
		sorted = append(sorted, k)
	}
	sort.Strings(sorted)
	for _, name := range sorted {
		// distinct values held by the non-root spans (by Go equality incl. type)
		var vals []any
		seen := map[string]bool{}
		for _, i := range others {
			if v, ok := tr.Spans[i][name]; ok {
				k := fmt.Sprintf("%T|%v", v, v)
				if !seen[k] {
					seen[k] = true
					vals = append(vals, v)
				}
			}
		}
		for _, i := range others {
			delete(out.Spans[i], name)
		}
		if len(vals) == 0 {
			continue
		}
		m := rng.Range(len(vals), len(others))
		holders := rng.Perm(len(others))[:m]
		for j, h := range holders {
			if j < len(vals) {
				out.Spans[others[h]][name] = vals[j]
			} else {
				out.Spans[others[h]][name] = vals[rng.Intn(len(vals))]
			}
		}
	}
	return out
}

// ---- independent model of "the value set of a field" ------------------------

// c11Canon maps a value to the coarsest plausible rendering: values that any reasonable
// stringification could print alike get the same canon, so "canon sets differ" is a safe
// reading of "the value sets differ".
func c11Canon(v any) string {
	switch x := v.(type) {
	case nil:
		return "<nil>"
	case string:
		return x
	case bool:
		if x {
			return "true"
		}
		return "false"
	case int64:
		return strconv.FormatInt(x, 10)
	case int:
		return strconv.Itoa(x)
	case float64:
		if x == math.Trunc(x) && math.Abs(x) < 1<<53 {
			return strconv.FormatInt(int64(x), 10)
		}
		return strconv.FormatFloat(x, 'f', -1, 64)
	default:
		return fmt.Sprintf("%v", v)
	}
}

// c11ValueSet is the sorted set of canon values a configured field takes in the trace
// (root.-prefixed: the root span's value only).
func c11ValueSet(tr c11trace, field string) []string {
	bare, isRoot := c11Bare(field)
	set := map[string]bool{}
	if isRoot {
		if tr.Root >= 0 {
			if v, ok := tr.Spans[tr.Root][bare]; ok {
				set[c11Canon(v)] = true
			}
		}
	} else {
		for _, sp := range tr.Spans {
			if v, ok := sp[bare]; ok {
				set[c11Canon(v)] = true
			}
		}
	}
	out := make([]string, 0, len(set))
	for k := range set {
		out = append(out, k)
	}
	sort.Strings(out)
	return out
}

// c11Involved counts distinct (non-root field list entry, value) pairs.
func c11Involved(tr c11trace, fields []string) int {
	c := 0
	for _, f := range fields {
		if _, isRoot := c11Bare(f); !isRoot {
			c += len(c11ValueSet(tr, f))
		}
	}
	return c
}

func c11Present(tr c11trace, field string) bool { return len(c11ValueSet(tr, field)) > 0 }

func c11AllPresent(tr c11trace, fields []string) bool {
	for _, f := range fields {
		if !c11Present(tr, f) {
			return false
		}
	}
	return true
}

func c11Clean(tr c11trace, fields []string) bool {
	for _, f := range fields {
		for _, v := range c11ValueSet(tr, f) {
			if strings.ContainsAny(v, "•,") {
				return false
			}
		}
	}
	return true
}

// c11Differs reports a configured field whose value set differs between the traces and
// whether the difference is only the empty string.
func c11Differs(a, b c11trace, fields []string) (field string, class string, differs bool) {
	for _, f := range fields {
		sa, sb := c11ValueSet(a, f), c11ValueSet(b, f)
		if strings.Join(sa, "\x00") == strings.Join(sb, "\x00") && len(sa) == len(sb) {
			continue
		}
		strip := func(s []string) string {
			var o []string
			for _, x := range s {
				if x != "" {
					o = append(o, x)
				}
			}
			return strings.Join(o, "\x00") + "#" + strconv.Itoa(len(o))
		}
		if strip(sa) == strip(sb) {
			if field == "" {
				field, class = f, "only-empty-string-differs"
			}
			continue
		}
		return f, "distinct-values", true
	}
	return field, class, field != ""
}

func c11ASCII(s string) bool {
	for i := 0; i < len(s); i++ {
		if s[i] >= 0x80 {
			return false
		}
	}
	return true
}

// c11Mutate changes the value set of one configured field.
func c11Mutate(rng *verifkit.Rand, tr c11trace, fields []string) c11trace {
	out := tr.clone()
	f := fields[rng.Intn(len(fields))]
	bare, isRoot := c11Bare(f)
	fresh := func() any {
		if rng.Chance(0.6) {
			for _, c := range c11ValueSet(out, f) {
				if len(c) > 259 && c11ASCII(c) {
					sib := c11LongSibling(rng, c)
					dup := false
					for _, d := range c11ValueSet(out, f) {
						if d == sib {
							dup = true
						}
					}
					if !dup {
						return sib
					}
				}
			}
		}
		for k := 0; k < 20; k++ {
			v := c11cleanValues[rng.Intn(len(c11cleanValues))]
			in := false
			for _, c := range c11ValueSet(out, f) {
				if c == c11Canon(v) {
					in = true
				}
			}
			if !in {
				return v
			}
		}
		return "fresh-" + rng.Hex(4)
	}
	if isRoot {
		if out.Root >= 0 {
			out.Spans[out.Root][bare] = fresh()
		}
		return out
	}
	var holders []int
	for i, sp := range out.Spans {
		if _, ok := sp[bare]; ok {
			holders = append(holders, i)
		}
	}
	switch rng.Intn(5) {
	case 4: // split one string value in two pieces held by two spans (same span count)
		var cands []int
		for _, i := range holders {
			if str, ok := out.Spans[i][bare].(string); ok && len(str) >= 2 && c11ASCII(str) {
				cands = append(cands, i)
			}
		}
		if len(cands) > 0 && len(out.Spans) >= 2 {
			i := cands[rng.Intn(len(cands))]
			str := out.Spans[i][bare].(string)
			k := rng.Range(1, len(str)-1)
			j := rng.Intn(len(out.Spans) - 1)
			if j >= i {
				j++
			}
			for _, h := range holders { // every holder of str gets the first piece
				if out.Spans[h][bare] == any(str) {
					out.Spans[h][bare] = str[:k]
				}
			}
			out.Spans[j][bare] = str[k:]
		} else {
			out.Spans[rng.Intn(len(out.Spans))][bare] = fresh()
		}
	case 0: // add a fresh value on some span (replaces whatever was there)
		out.Spans[rng.Intn(len(out.Spans))][bare] = fresh()
	case 1: // add the empty string / remove it
		i := rng.Intn(len(out.Spans))
		if v, ok := out.Spans[i][bare]; ok && v == "" {
			out.Spans[i][bare] = fresh()
		} else {
			out.Spans[i][bare] = ""
		}
	case 2: // collapse the set to one of its values
		if len(holders) > 0 {
			v := out.Spans[holders[rng.Intn(len(holders))]][bare]
			for _, i := range holders {
				out.Spans[i][bare] = v
			}
		}
	default: // drop the field from one holder (may shrink the set, never empties it)
		if len(holders) > 1 {
			delete(out.Spans[holders[rng.Intn(len(holders))]], bare)
		} else {
			out.Spans[rng.Intn(len(out.Spans))][bare] = fresh()
		}
	}
	return out
}

// ---- the check --------------------------------------------------------------

// c11Get calls the real sampler; a panic inside it is recorded as a violation (the test
// function's deferred Finish would otherwise make the runner see a finished run).
func c11Get(run *verifkit.Run, name string, s Sampler, t *types.Trace, ctx func() any) (rate uint, keep bool, key string, ok bool) {
	defer func() {
		if r := recover(); r != nil {
			var w any
			if ctx != nil {
				w = ctx() // witnesses are only rendered when needed
			}
			run.Violation("C11/"+name+"/panic", fmt.Sprintf("%s.GetSampleRate panicked: %v", name, r), w)
			ok = false
		}
	}()
	rate, keep, _, key = s.GetSampleRate(t)
	return rate, keep, key, true
}

func c11Ask(run *verifkit.Run, s c11sampler, tr c11trace) string {
	rate, keep, key, ok := c11Get(run, s.name, s.s, c11RealTrace(tr), func() any { return map[string]any{"trace": tr.witness()} })
	if !ok {
		return "<panic>"
	}
	run.Count("get_sample_rate_calls", 1)
	if rate < 1 {
		run.Violation("C11/"+s.name+"/rate-below-1", fmt.Sprintf("%s returned sample rate %d", s.name, rate), map[string]any{"trace": tr.witness()})
	}
	if rate == 1 && !keep {
		run.Violation("C11/"+s.name+"/rate-1-not-kept", fmt.Sprintf("%s returned rate 1 but keep=false", s.name), map[string]any{"trace": tr.witness()})
	}
	return key
}

func TestVerif_C11(t *testing.T) {
	run := verifkit.Start(t, "C11", "sample")
	defer run.Finish()
	run.Rule("per case: a field list of 1..4 names from {f0,f1,f2,root.f0,root.f1,root.g} (duplicates allowed), UseTraceLength on/off, a trace of 1..8 spans (or a wide trace with up to 99 distinct (field,value) pairs) with/without root over a small typed value universe (strings incl. empty, ints, floats, bools; 20% of cases also nil and values containing the key delimiters); the five dynsampler-backed samplers each see A, a permutation, duplications, a redistribution of the same value sets, a mutated trace B and A again. non-trivial = case where all configured fields are present and the mutated trace's value sets differ per the model; distinct = field-list shape x UseTraceLength x root presence x sizes of the value sets")
	run.Assume("the separation claim is only asserted for values free of the delimiters (bullet and comma) with every configured field present in both traces; the model collapses values that print alike (1, 1.0, \"1\"; true, \"true\") so type-only differences are never claimed to separate")
	run.Assume("dynsampler-go's recalculation tickers run on real time; no verdict depends on them (keys are time-independent, rate>=1 and rate==1=>keep hold at any time, the statistical bound is computed from the rates actually returned)")

	run.Cases("trace", run.N(2500, 90000), func(i int, rng *verifkit.Rand) {
		fields := c11GenFields(rng)
		useLen := rng.Bool()
		dirty := rng.Chance(0.2)
		wide := !dirty && rng.Chance(0.12)
		var A c11trace
		involved := 0
		if wide {
			A, involved = c11GenWideTrace(rng, fields)
			if involved > 99 {
				t.Fatalf("verif harness: wide trace with %d distinct pairs", involved)
			}
			run.Count("wide_traces", 1)
			if involved == 99 {
				run.Count("wide_traces_with_exactly_99_pairs", 1)
			}
		} else {
			A = c11GenTrace(rng, fields, dirty)
		}
		P := c11Permute(rng, A)
		extra := rng.Range(1, 4)
		D1 := c11Duplicate(rng, A, extra)
		D2 := c11Duplicate(rng, A, extra)
		R := c11Redistribute(rng, A)
		B := c11Mutate(rng, A, fields)
		sepField, sepClass, differs := c11Differs(A, B, fields)
		// the 100-distinct-values safety valve bounds every claim about keys
		separable := !dirty && differs && c11Involved(A, fields) <= 99 && c11Involved(B, fields) <= 99 && c11AllPresent(A, fields) && c11AllPresent(B, fields) && c11Clean(A, fields) && c11Clean(B, fields)

		// rate 1 (always keep) and rate > 1 configurations both occur
		tn := c11tuning{goalRate: verifkit.Pick(rng, 1, 10), initial: verifkit.Pick(rng, 1, 3), throughput: 100}
		samplers := c11NewSamplers(fields, useLen, tn)
		defer func() {
			for _, s := range samplers {
				s.stop()
			}
		}()
		for _, s := range samplers {
			wit := func(other string, o c11trace, kA, kO string) map[string]any {
				return map[string]any{"sampler": s.name, "field_list": fields, "use_trace_length": useLen, "trace_A": A.witness(), other: o.witness(), "key_A": kA, "key_" + other: kO}
			}
			kA := c11Ask(run, s, A)
			if kP := c11Ask(run, s, P); kP != kA {
				run.Violation("C11/key/changed-by-span-permutation", "reordering the spans changed the sample key", wit("permuted", P, kA, kP))
			}
			kD1 := c11Ask(run, s, D1)
			kD2 := c11Ask(run, s, D2)
			if !useLen {
				if kD1 != kA {
					run.Violation("C11/key/changed-by-span-duplication", "duplicating spans changed the sample key (UseTraceLength off)", wit("duplicated", D1, kA, kD1))
				}
			}
			if kD1 != kD2 {
				run.Violation("C11/key/differs-between-equal-size-duplications", "two duplications of the same trace to the same span count got different keys", wit("duplicated_1", D1, kD2, kD1))
			}
			if kR := c11Ask(run, s, R); kR != kA {
				run.Violation("C11/key/changed-by-redistributing-same-value-sets", "same per-field value sets and span count, different spread over spans, different key", wit("redistributed", R, kA, kR))
			}
			kB := c11Ask(run, s, B)
			if separable && kB == kA {
				sig := "C11/key/not-separated/" + sepClass
				run.Violation(sig, fmt.Sprintf("field %s takes different value sets in the two traces but both get key %q", sepField, kA), wit("mutated", B, kA, kB))
			}
			if kA2 := c11Ask(run, s, A); kA2 != kA {
				run.Violation("C11/key/not-a-function-of-the-trace", "the same trace got a different key after other traces went through the sampler", wit("again", A, kA, kA2))
			}
		}
		run.Count("key_comparisons", int64(6*len(samplers)))
		if separable {
			run.Count("separation_pairs", int64(len(samplers)))
			sizes := ""
			for _, f := range fields {
				sizes += strconv.Itoa(len(c11ValueSet(A, f))) + ","
			}
			shape := make([]string, len(fields))
			for j, f := range fields {
				if _, r := c11Bare(f); r {
					shape[j] = "R"
				} else {
					shape[j] = "N"
				}
			}
			run.Nontrivial(fmt.Sprintf("%s|%v|%v|%s|%s", strings.Join(shape, ""), useLen, A.Root >= 0, sizes, sepClass))
		}
		if i < 3 {
			run.Sample(map[string]any{"field_list": fields, "use_trace_length": useLen, "trace": A.witness(), "mutated": B.witness()})
		}
	})

	// ---- rate floor and keep with a scripted rate source (DynamicSampler only) ------
	scriptedRates := []int{0, 1, 2, 3, 7, 20, 50}
	perRate := run.N(6000, 60000)
	run.Cases("scripted-rates", 1, func(_ int, rng *verifkit.Rand) {
		stub := &c11stub{rates: scriptedRates}
		d := c11NewScripted([]string{"f0"}, false, stub)
		tr := c11RealTrace(c11trace{Root: 0, Spans: []c11span{{"f0": "a"}}})
		kept := make([]int, len(scriptedRates))
		for j := 0; j < perRate*len(scriptedRates); j++ {
			scripted := scriptedRates[j%len(scriptedRates)]
			rate, keep, _, ok := c11Get(run, "dynamic", d, tr, func() any { return map[string]any{"scripted_rate": scripted} })
			if !ok {
				continue
			}
			if rate < 1 {
				run.Violation("C11/dynamic/rate-below-1", fmt.Sprintf("rate source answered %d and the sampler returned rate %d", scripted, rate), map[string]any{"scripted": scripted})
			}
			if rate == 1 && !keep {
				run.Violation("C11/dynamic/rate-1-not-kept", "rate 1 but keep=false", map[string]any{"scripted": scripted})
			}
			if keep {
				kept[j%len(scriptedRates)]++
			}
		}
		run.Count("scripted_rate_calls", int64(perRate*len(scriptedRates)))
		{
			for j, r := range scriptedRates {
				if r <= 1 {
					continue
				}
				p := 1 / float64(r)
				mean := float64(perRate) * p
				sigma := math.Sqrt(float64(perRate) * p * (1 - p))
				run.Count(fmt.Sprintf("scripted_kept_rate_%d", r), int64(kept[j]))
				if math.Abs(float64(kept[j])-mean) > 6*sigma+1 {
					run.Violation("C11/dynamic/keep-frequency", fmt.Sprintf("rate %d: kept %d of %d, expected %.0f +- %.0f (6 sigma)", r, kept[j], perRate, mean, 6*sigma),
						map[string]any{"rate": r, "calls": perRate, "kept": kept[j]})
				}
			}
		}
	})

	// ---- keep frequency against the rates the real dynsamplers return ---------------
	{
		run.Cases("keep-frequency", 1, func(_ int, rng *verifkit.Rand) {
			fast := c11tuning{goalRate: 8, initial: 5, throughput: 200000, interval: 10 * time.Millisecond}
			samplers := c11NewSamplers([]string{"f0"}, false, fast)
			defer func() {
				for _, s := range samplers {
					s.stop()
				}
			}()
			pool := make([]*types.Trace, 6)
			for j := range pool {
				// skewed key popularity: key j is used ~ 2^-j of the time
				pool[j] = c11RealTrace(c11trace{Root: 0, Spans: []c11span{{"f0": "k" + strconv.Itoa(j)}, {"f0": "k" + strconv.Itoa(j)}}})
			}
			calls := run.N(20000, 150000)
			for _, s := range samplers {
				var expect, variance float64
				kept, above1 := 0, 0
				for j := 0; j < calls; j++ {
					k := 0
					for k < len(pool)-1 && rng.Bool() {
						k++
					}
					rate, keep, _, ok := c11Get(run, s.name, s.s, pool[k], nil)
					if !ok {
						continue
					}
					if rate < 1 {
						run.Violation("C11/"+s.name+"/rate-below-1", fmt.Sprintf("%s returned sample rate %d", s.name, rate), nil)
						continue
					}
					if rate == 1 && !keep {
						run.Violation("C11/"+s.name+"/rate-1-not-kept", "rate 1 but keep=false", nil)
					}
					if rate > 1 {
						above1++
					}
					p := 1 / float64(rate)
					expect += p
					variance += p * (1 - p)
					if keep {
						kept++
					}
				}
				run.Count("keep_frequency_calls", int64(calls))
				run.Count("keep_frequency_calls_rate_above_1/"+s.name, int64(above1))
				if variance < 100 {
					// the real-time tickers never moved this sampler's rate away from 1 often
					// enough for a statistical statement; the deterministic part was checked.
					run.Count("keep_frequency_vacuous/"+s.name, 1)
					continue
				}
				if d := math.Abs(float64(kept) - expect); d > 6*math.Sqrt(variance)+1 {
					run.Violation("C11/"+s.name+"/keep-frequency", fmt.Sprintf("%s kept %d of %d traces, expected sum(1/rate)=%.0f +- %.0f (6 sigma)", s.name, kept, calls, expect, 6*math.Sqrt(variance)),
						map[string]any{"sampler": s.name, "calls": calls, "kept": kept, "expected": expect, "sigma": math.Sqrt(variance), "calls_with_rate_above_1": above1})
				}
			}
		})
	}
}
