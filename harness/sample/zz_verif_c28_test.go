//go:build verif

package sample

import (
	"encoding/json"
	"fmt"
	"math"
	"os"
	"path/filepath"
	"sort"
	"strings"
	"testing"
	"time"

	"github.com/honeycombio/refinery/config"
	"github.com/honeycombio/refinery/internal/verifkit"
	"github.com/honeycombio/refinery/logger"
	"github.com/honeycombio/refinery/metrics"
	"github.com/honeycombio/refinery/types"
	"gopkg.in/yaml.v3"
)

// C28 (unit "rules"): no rules configuration that passes validation can crash
// Refinery.
//
// Parent: generates rules documents (mostly valid shapes with boundary values
// and "wrong but possibly accepted" mutations), hands them in batches to child
// processes. Child: loads each document with the REAL loader and validation
// (config.NewConfig); accepted documents get a SamplerFactory and, for every
// sampler destination, exactly the call sequence a collector worker performs
// in makeDecision (GetSamplerImplementationForKey, GetKeyFields,
// MemoizeFields, GetSampleRate) on generated traces. A dead child is the
// refuting observation; the write-ahead log names the input.

type c28Input struct {
	Index int    `json:"index"`
	Rules string `json:"rules_yaml"`
	Seed  uint64 `json:"trace_seed"`
}

const c28MainConfig = `General:
  ConfigurationVersion: 2
Network:
  HoneycombAPI: http://127.0.0.1:1
PeerManagement:
  Type: file
`

func c28Ints(rng *verifkit.Rand) any {
	return verifkit.Pick[any](rng, 0, 1, 1, 2, 2, 10, 10, 100, -1, -3, 1<<31-1, 1<<31, 1<<32, 1<<32+1, 3<<32, int64(math.MaxInt64), "5", 1.5, 2.0, nil, true)
}

func c28GoodInt(rng *verifkit.Rand) any { return verifkit.Pick[any](rng, 1, 2, 5, 10, 100, 1000) }

func c28Duration(rng *verifkit.Rand) any {
	return verifkit.Pick[any](rng, "30s", "1s", "1s", "10s", "0s", "1ns", "1ms", "-1s", "1h", 0, 5, "", "abc", nil, "100ms", "2562047h")
}

func c28Float(rng *verifkit.Rand) any {
	return verifkit.Pick[any](rng, 0.5, 0.5, 0.1, 0.9, 0.0, 1.0, -0.5, 1.5, 2.0, math.NaN(), math.Inf(1), 1e308, 5e-324, "0.5", nil)
}

var c28FieldNames = []string{"a", "b", "http.status", "root.a", "root.b", "?.NUM_DESCENDANTS", "?.bogus", "", " ", "a.b.c", "meta.span_type", "trace.trace_id", "root.", "é", "x•y", "x,y"}

func c28FieldList(rng *verifkit.Rand) any {
	switch rng.Intn(12) {
	case 0:
		return []any{}
	case 1:
		return []any{""}
	case 2:
		return nil
	case 3:
		return []any{nil}
	case 4:
		return "a"
	case 5:
		return []any{"a", "a"}
	case 6:
		return []any{1, 2}
	default:
		n := rng.Range(1, 4)
		out := make([]any, n)
		for i := range out {
			out[i] = c28FieldNames[rng.Intn(len(c28FieldNames))]
		}
		return out
	}
}

func c28GoodFieldList(rng *verifkit.Rand) any {
	n := rng.Range(1, 3)
	out := make([]any, n)
	for i := range out {
		out[i] = verifkit.Pick(rng, "a", "b", "http.status", "root.a")
	}
	return out
}

// c28Maybe sets m[k] with probability p to the hostile generator, otherwise the benign one (or omits it).
func c28Set(rng *verifkit.Rand, m map[string]any, k string, hostile float64, bad, good func(*verifkit.Rand) any, required bool) {
	switch {
	case rng.Chance(hostile):
		m[k] = bad(rng)
	case required || rng.Bool():
		m[k] = good(rng)
	}
}

func c28GoodDur(rng *verifkit.Rand) any   { return verifkit.Pick[any](rng, "30s", "1s", "10s", "100ms") }
func c28GoodFloat(rng *verifkit.Rand) any { return verifkit.Pick[any](rng, 0.5, 0.1, 0.9) }
func c28BoolV(rng *verifkit.Rand) any     { return verifkit.Pick[any](rng, true, false, "true", 1, nil) }
func c28GoodBool(rng *verifkit.Rand) any  { return rng.Bool() }

func c28Sampler(rng *verifkit.Rand, kind string, h float64) map[string]any {
	m := map[string]any{}
	switch kind {
	case "DeterministicSampler":
		c28Set(rng, m, "SampleRate", h, c28Ints, c28GoodInt, true)
	case "DynamicSampler":
		c28Set(rng, m, "SampleRate", h, c28Ints, c28GoodInt, true)
		c28Set(rng, m, "ClearFrequency", h, c28Duration, c28GoodDur, false)
		c28Set(rng, m, "FieldList", h, c28FieldList, c28GoodFieldList, true)
		c28Set(rng, m, "MaxKeys", h, c28Ints, c28GoodInt, false)
		c28Set(rng, m, "UseTraceLength", h/2, c28BoolV, c28GoodBool, false)
	case "EMADynamicSampler":
		c28Set(rng, m, "GoalSampleRate", h, c28Ints, c28GoodInt, true)
		c28Set(rng, m, "AdjustmentInterval", h, c28Duration, c28GoodDur, false)
		c28Set(rng, m, "Weight", h, c28Float, c28GoodFloat, false)
		c28Set(rng, m, "AgeOutValue", h, c28Float, c28GoodFloat, false)
		c28Set(rng, m, "BurstMultiple", h, c28Float, func(r *verifkit.Rand) any { return 2.0 }, false)
		c28Set(rng, m, "BurstDetectionDelay", h, c28Ints, c28GoodInt, false)
		c28Set(rng, m, "FieldList", h, c28FieldList, c28GoodFieldList, true)
		c28Set(rng, m, "MaxKeys", h, c28Ints, c28GoodInt, false)
		c28Set(rng, m, "UseTraceLength", h/2, c28BoolV, c28GoodBool, false)
	case "EMAThroughputSampler":
		c28Set(rng, m, "GoalThroughputPerSec", h, c28Ints, c28GoodInt, true)
		c28Set(rng, m, "UseClusterSize", h/2, c28BoolV, c28GoodBool, false)
		c28Set(rng, m, "InitialSampleRate", h, c28Ints, c28GoodInt, false)
		c28Set(rng, m, "AdjustmentInterval", h, c28Duration, c28GoodDur, false)
		c28Set(rng, m, "Weight", h, c28Float, c28GoodFloat, false)
		c28Set(rng, m, "AgeOutValue", h, c28Float, c28GoodFloat, false)
		c28Set(rng, m, "BurstMultiple", h, c28Float, func(r *verifkit.Rand) any { return 2.0 }, false)
		c28Set(rng, m, "BurstDetectionDelay", h, c28Ints, c28GoodInt, false)
		c28Set(rng, m, "FieldList", h, c28FieldList, c28GoodFieldList, true)
		c28Set(rng, m, "MaxKeys", h, c28Ints, c28GoodInt, false)
		c28Set(rng, m, "UseTraceLength", h/2, c28BoolV, c28GoodBool, false)
	case "WindowedThroughputSampler":
		c28Set(rng, m, "GoalThroughputPerSec", h, c28Ints, c28GoodInt, true)
		c28Set(rng, m, "UseClusterSize", h/2, c28BoolV, c28GoodBool, false)
		c28Set(rng, m, "UpdateFrequency", h, c28Duration, c28GoodDur, false)
		c28Set(rng, m, "LookbackFrequency", h, c28Duration, c28GoodDur, false)
		c28Set(rng, m, "FieldList", h, c28FieldList, c28GoodFieldList, true)
		c28Set(rng, m, "MaxKeys", h, c28Ints, c28GoodInt, false)
		c28Set(rng, m, "UseTraceLength", h/2, c28BoolV, c28GoodBool, false)
	case "TotalThroughputSampler":
		c28Set(rng, m, "GoalThroughputPerSec", h, c28Ints, c28GoodInt, true)
		c28Set(rng, m, "UseClusterSize", h/2, c28BoolV, c28GoodBool, false)
		c28Set(rng, m, "ClearFrequency", h, c28Duration, c28GoodDur, false)
		c28Set(rng, m, "FieldList", h, c28FieldList, c28GoodFieldList, true)
		c28Set(rng, m, "MaxKeys", h, c28Ints, c28GoodInt, false)
		c28Set(rng, m, "UseTraceLength", h/2, c28BoolV, c28GoodBool, false)
	}
	return m
}

var c28Operators = []string{"=", "!=", ">", "<", ">=", "<=", "contains", "does-not-contain", "starts-with", "exists", "not-exists", "has-root-span", "matches", "in", "not-in"}
var c28Datatypes = []string{"", "string", "int", "float", "bool"}

func c28Value(rng *verifkit.Rand) any {
	switch rng.Intn(16) {
	case 0:
		return nil
	case 1:
		return []any{}
	case 2:
		return []any{"a", 1, nil, 1.5, true}
	case 3:
		return map[string]any{"k": "v"}
	case 4:
		return "("
	case 5:
		return "[a-"
	case 6:
		return []any{[]any{1}}
	case 7:
		return math.NaN()
	case 8:
		return []any{"x", "y"}
	case 9:
		return []any{1, 2, 3}
	case 10:
		return true
	case 11:
		return 1.5
	case 12:
		return int64(math.MaxInt64)
	default:
		return verifkit.Pick[any](rng, "a", "200", 200, 0, "", "true", "^a.*$")
	}
}

func c28Condition(rng *verifkit.Rand, h float64) any {
	if rng.Chance(h / 6) {
		return nil
	}
	c := map[string]any{}
	switch rng.Intn(10) {
	case 0:
		c["Fields"] = c28FieldList(rng)
	case 1:
		if rng.Chance(h) {
			c["Field"] = "a"
			c["Fields"] = []any{"b"}
		}
	default:
		if rng.Chance(h) {
			c["Field"] = verifkit.Pick[any](rng, c28FieldNames[rng.Intn(len(c28FieldNames))], 5, nil, []any{"a"})
		} else {
			c["Field"] = verifkit.Pick(rng, "a", "b", "http.status", "root.a", "?.NUM_DESCENDANTS")
		}
	}
	if rng.Chance(h / 3) {
		c["Operator"] = verifkit.Pick[any](rng, "", "bogus", nil, 5, "EXISTS")
	} else {
		c["Operator"] = c28Operators[rng.Intn(len(c28Operators))]
	}
	if rng.Chance(0.8) {
		c["Value"] = c28Value(rng)
	}
	if rng.Chance(0.5) {
		if rng.Chance(h / 3) {
			c["Datatype"] = verifkit.Pick[any](rng, "bogus", 5, nil, "String")
		} else {
			c["Datatype"] = c28Datatypes[rng.Intn(len(c28Datatypes))]
		}
	}
	return c
}

var c28Downstream = []string{"DynamicSampler", "EMADynamicSampler", "EMAThroughputSampler", "WindowedThroughputSampler", "TotalThroughputSampler", "DeterministicSampler"}
var c28Top = []string{"DeterministicSampler", "RulesBasedSampler", "DynamicSampler", "EMADynamicSampler", "EMAThroughputSampler", "WindowedThroughputSampler", "TotalThroughputSampler"}

func c28Rule(rng *verifkit.Rand, h float64) any {
	if rng.Chance(h / 6) {
		return nil
	}
	r := map[string]any{}
	if rng.Chance(0.8) {
		r["Name"] = verifkit.Pick[any](rng, "r1", "r2", "", "a rule")
	}
	switch rng.Intn(5) {
	case 0:
		r["Drop"] = true
	case 1:
		c28Set(rng, r, "SampleRate", h, c28Ints, c28GoodInt, true)
	case 2:
		ds := map[string]any{}
		k := c28Downstream[rng.Intn(len(c28Downstream))]
		ds[k] = c28Sampler(rng, k, h)
		if rng.Chance(h / 3) {
			k2 := c28Downstream[rng.Intn(len(c28Downstream))]
			ds[k2] = c28Sampler(rng, k2, h)
		}
		if rng.Chance(h / 4) {
			ds = map[string]any{}
		}
		r["Sampler"] = ds
		if rng.Chance(h / 3) {
			r["SampleRate"] = c28Ints(rng)
		}
	case 3:
		r["SampleRate"] = c28GoodInt(rng)
		if rng.Chance(h) {
			r["Drop"] = true
		}
	default:
		// neither rate nor drop nor sampler
	}
	if rng.Chance(0.7) {
		r["Scope"] = verifkit.Pick[any](rng, "span", "trace")
	} else if rng.Chance(h) {
		r["Scope"] = verifkit.Pick[any](rng, "", "bogus", 5, nil)
	}
	switch {
	case rng.Chance(0.1):
		// no conditions
	case rng.Chance(h / 5):
		r["Conditions"] = verifkit.Pick[any](rng, nil, []any{}, "x", []any{nil}, map[string]any{})
	default:
		n := rng.Range(1, 3)
		cs := make([]any, n)
		for i := range cs {
			cs[i] = c28Condition(rng, h)
		}
		r["Conditions"] = cs
	}
	return r
}

func c28Choice(rng *verifkit.Rand, h float64) any {
	ch := map[string]any{}
	kind := c28Top[rng.Intn(len(c28Top))]
	if kind == "RulesBasedSampler" || rng.Chance(0.35) {
		rb := map[string]any{}
		switch {
		case rng.Chance(h / 5):
			rb["Rules"] = verifkit.Pick[any](rng, nil, []any{}, []any{nil}, "x")
		default:
			n := rng.Range(1, 4)
			rs := make([]any, n)
			for i := range rs {
				rs[i] = c28Rule(rng, h)
			}
			rb["Rules"] = rs
		}
		if rng.Bool() {
			rb["CheckNestedFields"] = rng.Bool()
		}
		ch["RulesBasedSampler"] = rb
	} else {
		ch[kind] = c28Sampler(rng, kind, h)
	}
	if rng.Chance(h / 4) {
		k2 := c28Top[rng.Intn(len(c28Top))]
		if _, ok := ch[k2]; !ok && k2 != "RulesBasedSampler" {
			ch[k2] = c28Sampler(rng, k2, h)
		}
	}
	if rng.Chance(h / 8) {
		return verifkit.Pick[any](rng, map[string]any{}, nil)
	}
	return ch
}

// c28Slot is one tunable leaf of a generated document, with the rule enclosing it (if any).
type c28Slot struct {
	m    map[string]any
	k    string
	rule map[string]any
}

var c28IntKeys = map[string]bool{"SampleRate": true, "GoalSampleRate": true, "GoalThroughputPerSec": true, "InitialSampleRate": true, "MaxKeys": true, "BurstDetectionDelay": true}
var c28DurKeys = map[string]bool{"ClearFrequency": true, "AdjustmentInterval": true, "UpdateFrequency": true, "LookbackFrequency": true}
var c28FloatKeys = map[string]bool{"Weight": true, "AgeOutValue": true, "BurstMultiple": true}

func c28Slots(v any, rule map[string]any, out *[]c28Slot) {
	switch x := v.(type) {
	case map[string]any:
		keys := make([]string, 0, len(x))
		for k := range x {
			keys = append(keys, k)
		}
		sort.Strings(keys)
		for _, k := range keys {
			if c28IntKeys[k] || c28DurKeys[k] || c28FloatKeys[k] {
				*out = append(*out, c28Slot{x, k, rule})
				continue
			}
			if k == "Rules" {
				if rs, ok := x[k].([]any); ok {
					for _, r := range rs {
						if rm, ok := r.(map[string]any); ok {
							c28Slots(rm, rm, out)
						}
					}
				}
				continue
			}
			c28Slots(x[k], rule, out)
		}
	case []any:
		for _, e := range x {
			c28Slots(e, rule, out)
		}
	}
}

// c28OneBad turns exactly one tunable of an otherwise well-formed document into a boundary /
// wrong-shape value; half of the time the enclosing rule loses its conditions so that it
// matches every trace and the value is actually used.
func c28OneBad(rng *verifkit.Rand, samplers map[string]any) {
	var slots []c28Slot
	c28Slots(samplers, nil, &slots)
	if len(slots) == 0 {
		return
	}
	sl := slots[rng.Intn(len(slots))]
	switch {
	case c28IntKeys[sl.k]:
		sl.m[sl.k] = c28Ints(rng)
	case c28DurKeys[sl.k]:
		sl.m[sl.k] = c28Duration(rng)
	default:
		sl.m[sl.k] = c28Float(rng)
	}
	if sl.rule != nil && rng.Bool() {
		delete(sl.rule, "Conditions")
	}
}

func c28Doc(rng *verifkit.Rand) string {
	// hostility: fraction of fields drawn from the hostile generators
	h := verifkit.Pick(rng, 0.0, 0.05, 0.1, 0.2, 0.4)
	oneBad := rng.Chance(0.3)
	if oneBad {
		h = 0
	}
	samplers := map[string]any{"__default__": c28Choice(rng, h)}
	for _, name := range []string{"env1", "ds.one", ""} {
		if rng.Chance(0.4) {
			samplers[name] = c28Choice(rng, h)
		}
	}
	if oneBad {
		c28OneBad(rng, samplers)
	}
	doc := map[string]any{"RulesVersion": 2, "Samplers": samplers}
	b, err := yaml.Marshal(doc)
	if err != nil {
		return "RulesVersion: 2\nSamplers:\n  __default__:\n    DeterministicSampler:\n      SampleRate: 1\n"
	}
	return string(b)
}

func TestVerif_C28(t *testing.T) {
	if _, _, child := verifkit.InChild(); child {
		t.Skip("child mode")
	}
	run := verifkit.Start(t, "C28", "rules")
	defer run.Finish()
	run.Rule("rules documents generated from the sampler schema with a PRNG-chosen fraction of boundary / wrong-shape values, loaded by the real loader with validation on in child processes; accepted documents get every configured sampler created and driven with the collector's makeDecision call sequence on generated traces; non-trivial = document accepted by validation and samplers exercised; distinct = distinct accepted documents")
	run.Assume("a sampler is used exactly as collect.(*CollectorWorker).makeDecision uses it; a child process dying (panic, fatal error) is the crash; dynsampler background goroutines get 20ms of real time per document")

	n := run.N(1200, 40000)
	batch := 100
	dir := run.OutDir()
	var inputs []c28Input
	run.Cases("rules", n, func(i int, rng *verifkit.Rand) {
		inputs = append(inputs, c28Input{Index: i, Rules: c28Doc(rng), Seed: rng.Uint64()})
	})
	accepted, rejected := 0, 0
	for lo := 0; lo < len(inputs); lo += batch {
		hi := lo + batch
		if hi > len(inputs) {
			hi = len(inputs)
		}
		bf := filepath.Join(dir, fmt.Sprintf("c28-batch-%d.json", lo))
		b, _ := json.Marshal(inputs[lo:hi])
		if err := os.WriteFile(bf, b, 0o644); err != nil {
			t.Fatal(err)
		}
		start := 0
		for restarts := 0; start < hi-lo && restarts <= batch; restarts++ {
			out := verifkit.RunChild(dir, "TestVerif_C28Child", bf, start, 120*time.Second)
			for i, note := range out.Done {
				_ = i
				if strings.HasPrefix(note, "accepted") {
					accepted++
					run.Nontrivial(inputs[lo+i].Rules)
					var ns, nt int
					fmt.Sscanf(note, "accepted samplers=%d traces=%d", &ns, &nt)
					run.Count("samplers_created", int64(ns))
					run.Count("decisions_made", int64(nt))
					if accepted <= 2 {
						run.Sample(map[string]any{"rules_yaml": inputs[lo+i].Rules, "child_note": note})
					}
				} else {
					rejected++
				}
			}
			if out.CrashedAt == -1 {
				break
			}
			if out.CrashedAt == -2 {
				run.Inconclusive("child died outside any input: " + out.Message)
				break
			}
			in := inputs[lo+out.CrashedAt]
			if out.TimedOut {
				// a hang must reproduce alone before it counts
				hung := 0
				for k := 0; k < 2; k++ {
					o2 := verifkit.RunChild(dir, "TestVerif_C28Child", bf, out.CrashedAt, 40*time.Second, "VERIF_CHILD_ONLY=1")
					if o2.TimedOut {
						hung++
					}
				}
				if hung == 2 {
					run.Violation("C28/rules/hang/"+out.Site, "validated rules document hangs sampler creation/decision", map[string]any{"rules_yaml": in.Rules, "trace_seed": in.Seed, "index": in.Index})
				} else {
					run.Count("timeouts_not_reproduced", 1)
				}
			} else {
				run.Count("child_crashes", 1)
				run.Violation("C28/rules/"+out.Site+"/"+out.Message,
					fmt.Sprintf("rules document passed validation, then crashed the process in %s: %s", out.Site, out.Message),
					map[string]any{"rules_yaml": in.Rules, "trace_seed": in.Seed, "index": in.Index, "crash_output_tail": c28Tail(out.Output, 60)})
			}
			start = out.CrashedAt + 1
		}
		os.Remove(bf)
	}
	run.Count("documents_accepted_by_validation", int64(accepted))
	run.Count("documents_rejected_by_validation", int64(rejected))
}

func c28Tail(s string, n int) string {
	lines := strings.Split(s, "\n")
	// keep from the panic line
	for i, l := range lines {
		if strings.HasPrefix(l, "panic: ") || strings.HasPrefix(l, "fatal error: ") {
			lines = lines[i:]
			break
		}
	}
	if len(lines) > n {
		lines = lines[:n]
	}
	return strings.Join(lines, "\n")
}

func TestVerif_C28Child(t *testing.T) {
	bf, start, ok := verifkit.InChild()
	if !ok {
		t.Skip("not a child")
	}
	b, err := os.ReadFile(bf)
	if err != nil {
		t.Fatal(err)
	}
	var inputs []c28Input
	if err := json.Unmarshal(b, &inputs); err != nil {
		t.Fatal(err)
	}
	wal, err := verifkit.OpenWAL()
	if err != nil {
		t.Fatal(err)
	}
	defer wal.Close()
	dir := t.TempDir()
	cfgPath := filepath.Join(dir, "config.yaml")
	os.WriteFile(cfgPath, []byte(c28MainConfig), 0o644)
	only := os.Getenv("VERIF_CHILD_ONLY") != ""
	for i := start; i < len(inputs); i++ {
		wal.Begin(i)
		note := c28RunOne(t, dir, cfgPath, inputs[i])
		wal.Done(i, note)
		if only {
			break
		}
	}
}

func c28RunOne(t *testing.T, dir, cfgPath string, in c28Input) string {
	rulesPath := filepath.Join(dir, "rules.yaml")
	os.WriteFile(rulesPath, []byte(in.Rules), 0o644)
	cfg, err := config.NewConfig(&config.CmdEnv{ConfigLocations: []string{cfgPath}, RulesLocations: []string{rulesPath}})
	if cfg == nil {
		return "rejected " + fmt.Sprint(err)
	}
	// warnings only: startup proceeds (cmd/refinery/main.go)
	factory := &SamplerFactory{Config: cfg, Logger: &c28Logger{}, Metrics: &metrics.NullMetrics{}}
	if err := factory.Start(); err != nil {
		return "rejected-by-factory " + err.Error()
	}
	defer factory.Stop()
	rng := verifkit.NewRand(in.Seed)
	// destinations: every configured name plus one that falls back to __default__
	var keys []string
	for k := range cfg.GetAllSamplerRules().Samplers {
		keys = append(keys, k)
	}
	sort.Strings(keys)
	keys = append(keys, "no-such-destination")
	fields := c28FieldsOf(in.Rules)
	ns, nt := 0, 0
	for _, key := range keys {
		sampler := factory.GetSamplerImplementationForKey(key)
		ns++
		for k := 0; k < 6; k++ {
			tr := c28Trace(rng, cfg, fields)
			// collect.(*CollectorWorker).makeDecision
			allFields, nonRootFields := sampler.GetKeyFields()
			for _, sp := range tr.GetSpans() {
				if sp.IsRoot {
					sp.Data.MemoizeFields(allFields...)
				} else {
					sp.Data.MemoizeFields(nonRootFields...)
				}
			}
			rate, _, _, _ := sampler.GetSampleRate(tr)
			tr.SetSampleRate(rate)
			nt++
		}
	}
	// give dynsampler maintenance goroutines a moment to run their first tick
	time.Sleep(20 * time.Millisecond)
	return fmt.Sprintf("accepted samplers=%d traces=%d", ns, nt)
}

// c28FieldsOf collects every string scalar in the document that might be used as a field name.
func c28FieldsOf(doc string) []string {
	var root any
	if yaml.Unmarshal([]byte(doc), &root) != nil {
		return nil
	}
	set := map[string]bool{}
	var walk func(k string, v any)
	walk = func(k string, v any) {
		switch x := v.(type) {
		case map[string]any:
			for kk, vv := range x {
				walk(kk, vv)
			}
		case []any:
			for _, vv := range x {
				walk(k, vv)
			}
		case string:
			if k == "Field" || k == "Fields" || k == "FieldList" {
				set[strings.TrimPrefix(x, "root.")] = true
			}
		}
	}
	walk("", root)
	out := make([]string, 0, len(set))
	for k := range set {
		out = append(out, k)
	}
	sort.Strings(out)
	return out
}

func c28FieldValue(rng *verifkit.Rand) any {
	switch rng.Intn(14) {
	case 0:
		return nil
	case 1:
		return int64(200)
	case 2:
		return 200
	case 3:
		return 1.5
	case 4:
		return true
	case 5:
		return ""
	case 6:
		return []any{"a", 1}
	case 7:
		return map[string]any{"b": map[string]any{"c": 1}}
	case 8:
		return uint64(math.MaxUint64)
	case 9:
		return float32(0.1)
	case 10:
		return math.NaN()
	default:
		return verifkit.Pick(rng, "a", "200", "x", "true", "abc")
	}
}

func c28Trace(rng *verifkit.Rand, cfg config.Config, fields []string) *types.Trace {
	tr := &types.Trace{TraceID: rng.Hex(verifkit.Pick(rng, 0, 16, 32)), APIKey: "k", Dataset: "ds"}
	n := rng.Range(0, 4)
	hasRoot := rng.Bool()
	for i := 0; i < n; i++ {
		data := map[string]any{}
		for _, f := range fields {
			if rng.Chance(0.6) {
				data[f] = c28FieldValue(rng)
			}
		}
		if rng.Chance(0.3) {
			data["meta.annotation_type"] = verifkit.Pick(rng, "span_event", "link")
		}
		sp := &types.Span{TraceID: tr.TraceID, Event: &types.Event{APIKey: "k", Dataset: "ds", Data: types.NewPayload(cfg, data)}}
		sp.Data.ExtractMetadata()
		if hasRoot && i == 0 {
			sp.IsRoot = true
			tr.RootSpan = sp
		}
		tr.AddSpan(sp)
	}
	return tr
}

// c28Logger prints the FORMAT string of error-level messages so that an
// os.Exit after logging can be attributed (verifkit.CrashSite).
type c28Logger struct{ logger.NullLogger }

type c28ErrEntry struct{}

func (*c28Logger) Error() logger.Entry                               { return c28ErrEntry{} }
func (e c28ErrEntry) WithField(string, interface{}) logger.Entry     { return e }
func (e c28ErrEntry) WithString(string, string) logger.Entry         { return e }
func (e c28ErrEntry) WithFields(map[string]interface{}) logger.Entry { return e }
func (e c28ErrEntry) Logf(f string, args ...interface{}) {
	fmt.Fprintln(os.Stderr, verifkit.ErrLogPrefix+f)
}
