//go:build verif

package health

import (
	"fmt"
	"runtime"
	"strings"
	"sync"
	"sync/atomic"
	"testing"
	"time"

	"github.com/honeycombio/refinery/internal/verifkit"
	"github.com/jonboulle/clockwork"
)

// C30: liveness and readiness follow subsystem reports within one tick.
//
// Lock-step reference model with BOUNDS (exactly what the property states):
//
//   alive   must be true  when every registered subsystem's silence (time since its
//                         last report, or since its registration if it has not
//                         reported yet) is < timeout - tick;
//           must be false when some registered subsystem that has reported has been
//                         silent for > timeout + tick (until it reports again, is
//                         re-registered or unregistered);
//           anything else (the band in between) is unconstrained.
//   ready   must be false unless >= 1 subsystem is registered, every registered
//                         subsystem has reported and its last report said ready, and
//                         no subsystem is in the unregistered state;
//           must be true  when all of that holds and every registered subsystem is
//                         inside its "must be alive" region (ready is exact there).
//
// The driver is the only goroutine touching the FakeClock. After each Advance it
// waits until the Health ticker goroutine has handled the tick (if one fell into the
// step) before it queries: the clock handed to Health wraps the FakeClock, and the
// goroutine's `select { case <-tick.Chan(): ... }` re-evaluates tick.Chan() every
// time it comes back to the select, i.e. after the decrement has been applied and
// the mutex released.

// ---- adapter ----------------------------------------------------------------

func c30tick() time.Duration { return TickerTime }

func c30newHealth(clock clockwork.Clock) (*Health, error) {
	h := &Health{Clock: clock}
	return h, h.Start()
}

// ---- synchronised fake clock --------------------------------------------------

type c30clock struct {
	*clockwork.FakeClock
	mu      sync.Mutex
	tickers []*c30ticker
}

type c30ticker struct {
	clockwork.Ticker
	period  time.Duration
	next    time.Time
	entries atomic.Int64
}

func (c *c30clock) NewTicker(d time.Duration) clockwork.Ticker {
	c.mu.Lock()
	defer c.mu.Unlock()
	t := &c30ticker{Ticker: c.FakeClock.NewTicker(d), period: d, next: c.FakeClock.Now().Add(d)}
	c.tickers = append(c.tickers, t)
	return t
}

func (t *c30ticker) Chan() <-chan time.Time {
	t.entries.Add(1)
	return t.Ticker.Chan()
}

func (c *c30clock) ticker() *c30ticker {
	c.mu.Lock()
	defer c.mu.Unlock()
	if len(c.tickers) == 0 {
		return nil
	}
	return c.tickers[0]
}

// c30wait spins until cond holds; the wall-clock bound is a watchdog only (=> inconclusive).
func c30wait(cond func() bool) bool {
	deadline := time.Now().Add(20 * time.Second)
	for i := 0; !cond(); i++ {
		if i < 200 {
			runtime.Gosched()
			continue
		}
		time.Sleep(10 * time.Microsecond)
		if i%1000 == 0 && time.Now().After(deadline) {
			return false
		}
	}
	return true
}

// advance moves the clock by d (0 < d <= tick) and, if a tick fell into the step,
// waits until the ticker goroutine has applied it. Reports whether a tick fired.
func (c *c30clock) advance(d time.Duration) (ticked bool, ok bool) {
	t := c.ticker()
	end := c.FakeClock.Now().Add(d)
	want := int64(-1)
	if !t.next.After(end) {
		want = t.entries.Load() + 1
		t.next = t.next.Add(t.period)
	}
	c.FakeClock.Advance(d)
	if want < 0 {
		return false, true
	}
	return true, c30wait(func() bool { return t.entries.Load() >= want })
}

// ---- model ------------------------------------------------------------------

type c30sub struct {
	name         string
	registered   bool // currently registered (Register seen, no Unregister since)
	unregistered bool // in the unregistered state (Unregister seen, no Register since)
	timeout      time.Duration
	regAt        time.Time
	reported     bool
	lastReport   time.Time
	lastReady    bool
	// generator only
	style int // 0 diligent, 1 lazy, 2 silent
}

type c30step struct {
	Op      string `json:"op"`
	Sub     string `json:"sub,omitempty"`
	Timeout string `json:"timeout,omitempty"`
	Flag    *bool  `json:"ready_flag,omitempty"`
	Advance string `json:"advance,omitempty"`
	At      string `json:"t"`
	Alive   bool   `json:"is_alive"`
	Ready   bool   `json:"is_ready"`
}

type c30case struct {
	run   *verifkit.Run
	clock *c30clock
	h     *Health
	t0    time.Time
	subs  []*c30sub
	hist  []c30step
	kinds strings.Builder

	sawMustAliveTight, sawMustDead, sawReadyTrue, sawReadyFalse bool
}

func (c *c30case) now() time.Time { return c.clock.FakeClock.Now() }

func (c *c30case) witness(extra ...any) map[string]any {
	subs := []map[string]any{}
	for _, s := range c.subs {
		m := map[string]any{"name": s.name, "registered": s.registered, "unregistered": s.unregistered, "timeout": s.timeout.String(), "reported": s.reported, "last_ready_flag": s.lastReady}
		if s.reported {
			m["silent_for"] = c.now().Sub(s.lastReport).String()
		} else if s.registered {
			m["since_registration"] = c.now().Sub(s.regAt).String()
		}
		subs = append(subs, m)
	}
	w := map[string]any{"history": c.hist, "model": subs, "tick": c30tick().String()}
	for i := 0; i+1 < len(extra); i += 2 {
		w[fmt.Sprint(extra[i])] = extra[i+1]
	}
	return w
}

// observe queries the real object and checks it against the model bounds.
func (c *c30case) observe(rng *verifkit.Rand, st c30step) {
	var alive, ready bool
	if rng.Bool() {
		alive, ready = c.h.IsAlive(), c.h.IsReady()
	} else {
		ready, alive = c.h.IsReady(), c.h.IsAlive()
	}
	now := c.now()
	tick := c30tick()
	st.At = now.Sub(c.t0).String()
	st.Alive, st.Ready = alive, ready
	c.hist = append(c.hist, st)

	nReg := 0
	allMustAlive := true
	var mustDead *c30sub
	allReportedReady := true
	anyUnregistered := false
	tight := false
	for _, s := range c.subs {
		if s.unregistered {
			anyUnregistered = true
		}
		if !s.registered {
			continue
		}
		nReg++
		since := s.regAt
		if s.reported {
			since = s.lastReport
		}
		silence := now.Sub(since)
		if !(silence < s.timeout-tick) {
			allMustAlive = false
		} else if silence >= s.timeout-2*tick {
			tight = true
		}
		if s.reported && silence > s.timeout+tick {
			mustDead = s
		}
		if !s.reported || !s.lastReady {
			allReportedReady = false
		}
	}
	c.run.Count("observations", 1)
	switch {
	case mustDead != nil:
		c.sawMustDead = true
		c.run.Count("must_be_dead_checks", 1)
		if alive {
			c.run.Violation("C30/alive/alive-while-silent-beyond-timeout-plus-tick",
				fmt.Sprintf("IsAlive()=true although subsystem %q (timeout %v) has been silent for %v > timeout + one %v tick", mustDead.name, mustDead.timeout, now.Sub(mustDead.lastReport), tick),
				c.witness("subsystem", mustDead.name))
		}
	case nReg > 0 && allMustAlive:
		if tight {
			c.sawMustAliveTight = true
		}
		c.run.Count("must_be_alive_checks", 1)
		if !alive {
			c.run.Violation("C30/alive/dead-while-reporting-within-timeout-minus-tick",
				fmt.Sprintf("IsAlive()=false although every registered subsystem reported less than (timeout - one %v tick) ago", tick), c.witness())
		}
	default:
		if nReg > 0 {
			c.run.Count("band_observations", 1)
			if alive {
				c.run.Count("band_answered_alive", 1)
			}
		}
	}
	necessary := nReg > 0 && allReportedReady && !anyUnregistered
	if !necessary {
		c.run.Count("must_be_not_ready_checks", 1)
		c.sawReadyFalse = true
		if ready {
			sig, what := "C30/ready/ready-before-every-subsystem-reported-ready", "IsReady()=true although a registered subsystem has not reported, or its last report said not ready"
			switch {
			case nReg == 0 && !anyUnregistered:
				sig, what = "C30/ready/ready-without-registered-subsystem", "IsReady()=true although no subsystem is registered"
			case anyUnregistered && (nReg == 0 || allReportedReady):
				sig, what = "C30/ready/ready-after-unregister", "IsReady()=true although a subsystem has unregistered"
			}
			c.run.Violation(sig, what, c.witness())
		}
	} else if allMustAlive {
		c.run.Count("must_be_ready_checks", 1)
		c.sawReadyTrue = true
		if !ready {
			c.run.Violation("C30/ready/not-ready-though-all-reported-ready",
				"IsReady()=false although at least one subsystem is registered, every registered subsystem reported ready within (timeout - tick), and none is unregistered", c.witness())
		}
	}
}

// ---- operations ---------------------------------------------------------------

var c30timeouts = []time.Duration{0, 100 * time.Millisecond, 499 * time.Millisecond, 500 * time.Millisecond, 501 * time.Millisecond,
	700 * time.Millisecond, time.Second, time.Second, 1200 * time.Millisecond, 1500 * time.Millisecond, 2 * time.Second, 2 * time.Second, 3 * time.Second, 5 * time.Second}

func (c *c30case) register(rng *verifkit.Rand, s *c30sub) {
	s.timeout = c30timeouts[rng.Intn(len(c30timeouts))]
	if rng.Chance(0.5) {
		s.timeout = verifkit.Pick(rng, time.Second, 1500*time.Millisecond, 2*time.Second, 3*time.Second)
	}
	c.h.Register(s.name, s.timeout)
	s.registered, s.unregistered = true, false
	s.regAt = c.now()
	s.reported, s.lastReady = false, false
	s.style = verifkit.Pick(rng, 0, 0, 0, 1, 2)
	c.kinds.WriteByte('R')
	c.observe(rng, c30step{Op: "Register", Sub: s.name, Timeout: s.timeout.String()})
}

func (c *c30case) unregister(rng *verifkit.Rand, s *c30sub) {
	c.h.Unregister(s.name)
	s.registered, s.unregistered = false, true
	s.reported, s.lastReady = false, false
	c.kinds.WriteByte('U')
	c.observe(rng, c30step{Op: "Unregister", Sub: s.name})
}

func (c *c30case) report(rng *verifkit.Rand, s *c30sub, flag bool) {
	c.h.Ready(s.name, flag)
	if s.registered { // reports of unregistered / never registered subsystems are ignored
		s.reported, s.lastReport, s.lastReady = true, c.now(), flag
	}
	if flag {
		c.kinds.WriteByte('y')
	} else {
		c.kinds.WriteByte('n')
	}
	f := flag
	c.observe(rng, c30step{Op: "Ready", Sub: s.name, Flag: &f})
}

// diligentDeadline is the last instant at which a diligent subsystem may still be silent: silence < timeout - tick.
func c30deadline(s *c30sub) (time.Time, bool) {
	if !s.registered || s.style != 0 || s.timeout-c30tick() <= time.Nanosecond {
		return time.Time{}, false
	}
	since := s.regAt
	if s.reported {
		since = s.lastReport
	}
	return since.Add(s.timeout - c30tick() - time.Nanosecond), true
}

// advanceTo moves to target in steps of at most one tick; diligent subsystems report
// just before their silence reaches timeout - tick.
func (c *c30case) advanceTo(rng *verifkit.Rand, target time.Time, stopAtTicks bool) bool {
	for c.now().Before(target) {
		now := c.now()
		end := target
		if lim := now.Add(c30tick()); end.After(lim) {
			end = lim
		}
		if stopAtTicks {
			if nt := c.clock.ticker().next; nt.After(now) && end.After(nt) {
				end = nt
			}
		}
		for _, s := range c.subs {
			if dl, ok := c30deadline(s); ok && dl.After(now) && end.After(dl) {
				end = dl
			}
		}
		d := end.Sub(now)
		ticked, ok := c.clock.advance(d)
		if !ok {
			c.run.Inconclusive("the health ticker goroutine did not come back to its select after a tick")
			return false
		}
		if ticked {
			c.kinds.WriteByte('T')
		} else {
			c.kinds.WriteByte('t')
		}
		c.observe(rng, c30step{Op: "advance", Advance: d.String()})
		for _, s := range c.subs {
			if dl, ok := c30deadline(s); ok && !c.now().Before(dl) {
				flag := s.lastReady || !s.reported
				if rng.Chance(0.1) {
					flag = !flag
				}
				c.report(rng, s, flag)
			}
		}
	}
	return true
}

func c30run(run *verifkit.Run, rng *verifkit.Rand, sample bool) {
	clock := &c30clock{FakeClock: clockwork.NewFakeClock()}
	// move the tick phase off the round start time
	clock.FakeClock.Advance(time.Duration(rng.Intn(int(time.Second))))
	h, err := c30newHealth(clock)
	if err != nil {
		run.Inconclusive("Health.Start failed: " + err.Error())
		return
	}
	defer h.Stop()
	if !c30wait(func() bool { t := clock.ticker(); return t != nil && t.entries.Load() >= 1 }) {
		run.Inconclusive("the health ticker goroutine did not start")
		return
	}
	c := &c30case{run: run, clock: clock, h: h, t0: clock.FakeClock.Now()}
	n := rng.Range(1, 4)
	for i := 0; i < n; i++ {
		c.subs = append(c.subs, &c30sub{name: fmt.Sprintf("sub%d", i)})
	}
	c.observe(rng, c30step{Op: "start"})
	churn := verifkit.Pick(rng, 0.02, 0.08, 0.2) // how often register/unregister happen after start-up
	steps := rng.Range(15, 90)
	for st := 0; st < steps; st++ {
		s := c.subs[rng.Intn(len(c.subs))]
		x := rng.Float64()
		switch {
		case !s.registered && !s.unregistered && rng.Chance(0.7):
			c.register(rng, s)
		case x < churn:
			if s.registered && rng.Chance(0.6) {
				c.unregister(rng, s)
			} else {
				c.register(rng, s) // first, repeated or after Unregister
			}
		case x < churn+0.02 && !s.registered:
			c.unregister(rng, s) // Unregister of something not registered
		case x < 0.45:
			// explicit report; silent subsystems mostly stay silent
			if s.style == 2 && s.reported && rng.Chance(0.85) {
				break
			}
			flag := rng.Chance(0.8)
			c.report(rng, s, flag)
		case x < 0.5:
			// change of behaviour
			s.style = rng.Intn(3)
		default:
			now := c.now()
			var target time.Time
			switch rng.Intn(6) {
			case 0:
				target = now.Add(time.Duration(rng.Range(1, int(2*time.Second))))
			case 1:
				target = c.clock.ticker().next.Add(time.Duration(rng.Range(-1, 1)))
			case 2, 3:
				// just past (or exactly at) the must-be-dead bound of a subsystem that is silent
				target = now.Add(time.Duration(rng.Range(1, int(time.Second))))
				for _, q := range c.subs {
					if q.registered && q.reported && q.style != 0 {
						b := q.lastReport.Add(q.timeout + c30tick()).Add(time.Duration(rng.Range(0, 1)))
						if b.After(now) {
							target = b
							break
						}
					}
				}
			default:
				target = now.Add(time.Duration(rng.Range(1, 4)) * c30tick() / 2)
			}
			if !target.After(now) {
				target = now.Add(time.Millisecond)
			}
			if lim := now.Add(4 * time.Second); target.After(lim) {
				target = lim
			}
			if !c.advanceTo(rng, target, rng.Bool()) {
				return
			}
		}
	}
	if c.sawMustAliveTight && c.sawMustDead && c.sawReadyTrue && c.sawReadyFalse {
		run.Nontrivial(c.kinds.String())
	}
	if sample {
		run.Sample(map[string]any{"history": c.hist})
	}
}

func TestVerif_C30(t *testing.T) {
	run := verifkit.Start(t, "C30", "health")
	defer run.Finish()
	run.Rule("PRNG histories over 1-4 subsystems: Register (timeouts 0..5s incl. 499/500/501ms and non-multiples of the tick; first, repeated, after Unregister), Unregister (also of unknown names), Ready(true/false) incl. from unregistered subsystems, and clock advances of at most one 500ms tick each, aimed at tick instants +-1ns, at (timeout - tick - 1ns) after a report for diligent subsystems and at (timeout + tick) and +1ns for silent ones; IsAlive and IsReady are queried after every step; non-trivial = the history contained a must-be-alive check with silence within one tick of the bound, a must-be-dead check, a must-be-ready and a must-be-not-ready check; distinct = sequence of step kinds")
	run.Assume("clockwork.FakeClock (wrapped only to observe Ticker.Chan() calls) is the only time source of health.Health; the ticker goroutine evaluates Chan() once each time it re-enters its select")
	run.Assume("timeouts are >= 0; a subsystem that has not reported yet counts as silent since its registration for the never-dead bound and is never required to be dead; a subsystem that re-registers after Unregister no longer counts as unregistered")
	run.Cases("histories", run.N(700, 60000), func(i int, rng *verifkit.Rand) { c30run(run, rng, i < 2) })
}
