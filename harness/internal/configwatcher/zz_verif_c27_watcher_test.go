//go:build verif

package configwatcher

import (
	"bytes"
	"context"
	"fmt"
	"os"
	"path/filepath"
	"reflect"
	"sort"
	"strings"
	"sync"
	"sync/atomic"
	"testing"
	"time"

	"github.com/honeycombio/refinery/config"
	"github.com/honeycombio/refinery/internal/verifkit"
	"github.com/honeycombio/refinery/logger"
	"github.com/honeycombio/refinery/pubsub"
)

// C27, unit "watcher": the reload triggers of internal/configwatcher.
//
// 2-3 real fileConfigs (one per simulated node) read the same temp files; each has a
// real ConfigWatcher wired to a driver-delivered in-process pubsub. A step rewrites the
// files and fires a PRNG-chosen set of triggers concurrently: the timer tick of some
// nodes (monitor's tick branch is exactly `cw.Config.Reload()`; the real ticker runs
// on wall-clock time and is parked with a 24h interval), and/or a change announcement
// arriving on the cfg_update topic (SubscriptionListener -> Reload). Announcements
// published by the watchers themselves are delivered, concurrently, until the bus is
// empty. Then every node is compared with its own model: a node that saw at least one
// trigger runs the new content iff it differs from what the node runs and startup
// accepts it; a node that saw none is untouched; listeners are called exactly once per
// applied change.
//
// ---- adapters (unexported identifiers of package configwatcher) -----------------------

// c27wIntervalElapsed makes the watcher believe that its last received announcement is
// older than ConfigReloadInterval (equivalent to letting that much time pass).
func c27wIntervalElapsed(cw *ConfigWatcher) {
	cw.mut.Lock()
	cw.msgTime = time.Time{}
	cw.mut.Unlock()
}

// c27wTick is what monitor() does when its ticker fires.
func c27wTick(cw *ConfigWatcher) {
	if err := cw.Config.Reload(); err != nil {
		cw.Logger.Error().Logf("error reloading config: %s", err)
	}
}

// ---- driver-delivered pubsub -----------------------------------------------------------

type c27sub struct {
	node int
	cb   pubsub.SubscriptionCallback
	open bool
}

func (s *c27sub) Close() { s.open = false }

type c27bus struct {
	mu       sync.Mutex
	subs     []*c27sub
	queue    []string
	nextNode int // node index the next Subscribe call belongs to
	sent     int
}

func (b *c27bus) Start() error { return nil }
func (b *c27bus) Stop() error  { return nil }
func (b *c27bus) Close()       {}
func (b *c27bus) FormatTopic(topic string) string {
	return "verif-" + topic
}
func (b *c27bus) Publish(ctx context.Context, topic, message string) error {
	b.mu.Lock()
	b.queue = append(b.queue, message)
	b.sent++
	b.mu.Unlock()
	return nil
}
func (b *c27bus) Subscribe(ctx context.Context, topic string, cb pubsub.SubscriptionCallback) pubsub.Subscription {
	b.mu.Lock()
	defer b.mu.Unlock()
	s := &c27sub{node: b.nextNode, cb: cb, open: true}
	b.subs = append(b.subs, s)
	return s
}

// take removes and returns everything queued.
func (b *c27bus) take() []string {
	b.mu.Lock()
	defer b.mu.Unlock()
	q := b.queue
	b.queue = nil
	return q
}

// ---- snapshot helpers (exported Config API only; same as in the config unit) -----------

func c27wDump(b *strings.Builder, v reflect.Value, depth int) {
	if depth > 12 || !v.IsValid() {
		b.WriteString("<?>")
		return
	}
	switch v.Kind() {
	case reflect.Ptr, reflect.Interface:
		if v.IsNil() {
			b.WriteString("nil")
			return
		}
		c27wDump(b, v.Elem(), depth+1)
	case reflect.Struct:
		b.WriteString(v.Type().Name() + "{")
		for i := 0; i < v.NumField(); i++ {
			b.WriteString(v.Type().Field(i).Name + ":")
			c27wDump(b, v.Field(i), depth+1)
			b.WriteString(" ")
		}
		b.WriteString("}")
	case reflect.Map:
		keys := v.MapKeys()
		sort.Slice(keys, func(i, j int) bool { return fmt.Sprint(keys[i]) < fmt.Sprint(keys[j]) })
		b.WriteString("map[")
		for _, k := range keys {
			fmt.Fprintf(b, "%v:", k)
			c27wDump(b, v.MapIndex(k), depth+1)
			b.WriteString(" ")
		}
		b.WriteString("]")
	case reflect.Slice, reflect.Array:
		b.WriteString("[")
		for i := 0; i < v.Len(); i++ {
			c27wDump(b, v.Index(i), depth+1)
			b.WriteString(" ")
		}
		b.WriteString("]")
	case reflect.String:
		fmt.Fprintf(b, "%q", v.String())
	case reflect.Bool:
		fmt.Fprintf(b, "%v", v.Bool())
	case reflect.Int, reflect.Int8, reflect.Int16, reflect.Int32, reflect.Int64:
		fmt.Fprintf(b, "%d", v.Int())
	case reflect.Uint, reflect.Uint8, reflect.Uint16, reflect.Uint32, reflect.Uint64, reflect.Uintptr:
		fmt.Fprintf(b, "%d", v.Uint())
	case reflect.Float32, reflect.Float64:
		fmt.Fprintf(b, "%v", v.Float())
	default:
		b.WriteString("<" + v.Kind().String() + ">")
	}
}

func c27wSnapshot(c config.Config) map[string]string {
	out := map[string]string{}
	v := reflect.ValueOf(c)
	it := reflect.TypeOf((*config.Config)(nil)).Elem()
	for i := 0; i < it.NumMethod(); i++ {
		m := it.Method(i)
		if m.Type.NumIn() != 0 || m.Type.NumOut() == 0 || m.Name == "GetConfigMetadata" {
			continue
		}
		var b strings.Builder
		for _, r := range v.MethodByName(m.Name).Call(nil) {
			c27wDump(&b, r, 0)
			b.WriteString(" | ")
		}
		out[m.Name] = b.String()
	}
	for _, dest := range []string{"__default__", "env0", "env1", "env2", "no-such-destination"} {
		s, name := c.GetSamplerConfigForDestName(dest)
		var b strings.Builder
		b.WriteString(name + " ")
		c27wDump(&b, reflect.ValueOf(s), 0)
		out["GetSamplerConfigForDestName("+dest+")"] = b.String()
	}
	return out
}

func c27wDiff(a, b map[string]string) []string {
	var d []string
	for k, va := range a {
		if vb, ok := b[k]; !ok || va != vb {
			s := fmt.Sprintf("%s: got %s want %s", k, va, b[k])
			if len(s) > 500 {
				s = s[:500] + "…"
			}
			d = append(d, s)
		}
	}
	sort.Strings(d)
	if len(d) > 6 {
		d = append(d[:6], fmt.Sprintf("… %d more", len(d)-6))
	}
	return d
}

// ---- content ---------------------------------------------------------------------------

func c27wCfg(k int, extra string) string {
	return fmt.Sprintf(`General:
  ConfigurationVersion: 2
  DatasetPrefix: p%d
  ConfigReloadInterval: 24h
Network:
  ListenAddr: 0.0.0.0:%d
Traces:
  SendDelay: %dms
%s`, k, 10000+k, 1000+k, extra)
}

func c27wRules(k int) string {
	return fmt.Sprintf("RulesVersion: 2\nSamplers:\n  __default__:\n    DeterministicSampler:\n      SampleRate: %d\n  env%d:\n    DynamicSampler:\n      SampleRate: %d\n      FieldList:\n        - f%d\n", k+1, k%3, k+2, k)
}

var c27wDeprecated = []string{"RedisPeerManagement:\n  Prefix: pre%d\n", "Collection:\n  CacheCapacity: %d\n", "LegacyMetrics:\n  Enabled: false\n  ReportingInterval: %ds\n"}
var c27wCfgInvalid = []string{"Network:\n  ListenAdr: 0.0.0.0:%d\n", "Traces:\n  BatchTimeout: %d\n", "General: [unclosed %d\n"}
var c27wRulesInvalid = []string{
	"RulesVersion: 2\nSamplers:\n  __default__:\n    InvalidSampler:\n      SampleRate: %d\n",
	"RulesVersion: 2\nSamplers:\n  env0:\n    DeterministicSampler:\n      SampleRate: %d\n",
	"RulesVersion: 2\nSamplers: {__default__: {DeterministicSampler: {SampleRate: %d}\n",
}

// ---- nodes -----------------------------------------------------------------------------

type c27wCall struct{ Cfg, Rules string }

type c27wListener struct {
	mu    sync.Mutex
	calls []c27wCall
}

type c27wNode struct {
	cfg          config.Config
	cw           *ConfigWatcher
	listeners    []*c27wListener
	appliedCfg   []byte
	appliedRules []byte
}

type c27wStep struct {
	Step      int      `json:"step"`
	CfgKind   string   `json:"config_kind"`
	RulesKind string   `json:"rules_kind"`
	Startup   string   `json:"startup_on_same_files"`
	Ticks     []int    `json:"timer_ticks_on_nodes"`
	Announce  int      `json:"external_announcements"`
	Elapsed   []int    `json:"interval_elapsed_on_nodes"`
	Delivered int      `json:"announcements_delivered"`
	Triggered []bool   `json:"node_triggered"`
	Applied   []bool   `json:"node_applied_observed"`
	Logged    []string `json:"logged_errors,omitempty"`
}

func TestVerif_C27_Watcher(t *testing.T) {
	run := verifkit.Start(t, "C27", "watcher")
	defer run.Finish()
	run.Rule("2-3 real fileConfigs with real ConfigWatchers on shared temp files and a driver-delivered pubsub; per step the files get one of {unchanged, restore, valid, deprecated-setting (warning), invalid, unreadable} and a PRNG-chosen set of concurrent triggers fires (timer tick on some nodes, external announcements on cfg_update, ConfigReloadInterval elapsed or not); announcements published by the watchers are delivered concurrently until the bus is empty; non-trivial = history in which a pubsub-triggered reload applied a change and some change was refused; distinct = distinct (kinds, trigger set) step sequences")
	run.Assume("monitor()'s tick is `cw.Config.Reload()`; the real ticker (wall clock, not injectable) is parked with ConfigReloadInterval 24h and the tick is issued by the driver")
	run.Assume("NewConfig(opts, version) on the same files in the same step is what 'startup would accept' means")
	run.Cases("cluster", run.N(10, 70), func(i int, rng *verifkit.Rand) { c27wHistory(t, run, rng) })
	run.Assume("real-monitor cases: monitor() runs on the real clock (time.NewTicker, the injected Clock is not used) with ConfigReloadInterval 40ms; progress is counted in completed Reload attempts and in ticks of a control ticker of the same interval in the same process, never in seconds; every wall-clock bound ends in inconclusive")
	run.Cases("real-monitor", run.N(5, 40), func(i int, rng *verifkit.Rand) { c27wRealMonitor(t, run, rng) })
}

func c27wWrite(t *testing.T, path string, content []byte) {
	tmp := path + ".tmp"
	if err := os.WriteFile(tmp, content, 0o644); err != nil {
		t.Fatal(err)
	}
	if err := os.Rename(tmp, path); err != nil {
		t.Fatal(err)
	}
}

func c27wHistory(t *testing.T, run *verifkit.Run, rng *verifkit.Rand) {
	dir, err := os.MkdirTemp(t.TempDir(), "w")
	if err != nil {
		t.Fatal(err)
	}
	version := verifkit.Pick(rng, []string(nil), []string{"dev"}, []string{"v2.5.0"}, []string{"v3.2.2"})
	cfgPath, rulesPath := filepath.Join(dir, "config.yaml"), filepath.Join(dir, "rules.yaml")
	next := 0
	fresh := func() int { next++; return next }
	diskCfg, diskRules := []byte(c27wCfg(fresh(), "")), []byte(c27wRules(fresh()))
	c27wWrite(t, cfgPath, diskCfg)
	c27wWrite(t, rulesPath, diskRules)
	mkopts := func() *config.CmdEnv {
		o, err := config.NewCmdEnvOptions([]string{"--config", cfgPath, "--rules_config", rulesPath})
		if err != nil {
			t.Fatal(err)
		}
		return o
	}
	bus := &c27bus{}
	log := &logger.MockLogger{}
	nodes := make([]*c27wNode, rng.Range(2, 3))
	for i := range nodes {
		c, err := config.NewConfig(mkopts(), version...)
		if c == nil {
			t.Fatalf("c27w: initial NewConfig: %v", err)
		}
		n := &c27wNode{cfg: c, appliedCfg: diskCfg, appliedRules: diskRules}
		n.cw = &ConfigWatcher{Config: c, PubSub: bus, Logger: log}
		bus.nextNode = i
		if err := n.cw.Start(); err != nil {
			t.Fatal(err)
		}
		for k := rng.Range(1, 2); k > 0; k-- {
			l := &c27wListener{}
			n.listeners = append(n.listeners, l)
			c.RegisterReloadCallback(func(ch, rh string) {
				_ = c.GetGeneralConfig()
				l.mu.Lock()
				l.calls = append(l.calls, c27wCall{ch, rh})
				l.mu.Unlock()
			})
		}
		nodes[i] = n
	}
	defer func() {
		for _, n := range nodes {
			n.cw.Stop()
		}
	}()
	topic := bus.FormatTopic(ConfigPubsubTopic)

	var hist []c27wStep
	var abstract strings.Builder
	pubsubApplied, refused := false, false
	steps := rng.Range(5, 9)
	for st := 0; st < steps; st++ {
		rec := c27wStep{Step: st}
		// ---- files
		k := fresh()
		switch x := rng.Intn(20); {
		case x < 3:
			rec.CfgKind = "unchanged"
		case x < 5:
			rec.CfgKind, diskCfg = "restore", nodes[rng.Intn(len(nodes))].appliedCfg
		case x < 11:
			rec.CfgKind, diskCfg = "valid", []byte(c27wCfg(k, ""))
		case x < 15:
			rec.CfgKind, diskCfg = "warning", []byte(c27wCfg(k, fmt.Sprintf(verifkit.Pick(rng, c27wDeprecated...), k+1)))
		case x < 18:
			rec.CfgKind, diskCfg = "invalid", []byte(c27wCfg(k, fmt.Sprintf(verifkit.Pick(rng, c27wCfgInvalid...), k+1)))
		default:
			rec.CfgKind, diskCfg = "unreadable", nil
		}
		switch x := rng.Intn(20); {
		case x < 7:
			rec.RulesKind = "unchanged"
		case x < 9:
			rec.RulesKind, diskRules = "restore", nodes[rng.Intn(len(nodes))].appliedRules
		case x < 15:
			rec.RulesKind, diskRules = "valid", []byte(c27wRules(k))
		case x < 18:
			rec.RulesKind, diskRules = "invalid", []byte(fmt.Sprintf(verifkit.Pick(rng, c27wRulesInvalid...), k))
		default:
			rec.RulesKind, diskRules = "unreadable", nil
		}
		for _, f := range []struct {
			p string
			b []byte
		}{{cfgPath, diskCfg}, {rulesPath, diskRules}} {
			if f.b == nil {
				os.Remove(f.p)
			} else {
				c27wWrite(t, f.p, f.b)
			}
		}
		readable := diskCfg != nil && diskRules != nil
		ref, refErr := config.NewConfig(mkopts(), version...)
		accept := ref != nil
		rec.Startup = map[bool]string{true: "accepts", false: "rejects"}[accept]
		if accept && refErr != nil {
			rec.Startup = "accepts with warnings"
		}
		var refSnap map[string]string
		if accept {
			refSnap = c27wSnapshot(ref)
		}

		before := make([]map[string]string, len(nodes))
		marks := make([][]int, len(nodes))
		for i, n := range nodes {
			before[i] = c27wSnapshot(n.cfg)
			for _, l := range n.listeners {
				l.mu.Lock()
				marks[i] = append(marks[i], len(l.calls))
				l.mu.Unlock()
			}
		}
		logMark := len(log.Events)

		// ---- triggers
		for i, n := range nodes {
			if rng.Chance(0.5) {
				c27wIntervalElapsed(n.cw)
				rec.Elapsed = append(rec.Elapsed, i)
			}
		}
		for i := range nodes {
			if rng.Chance(0.45) {
				rec.Ticks = append(rec.Ticks, i)
			}
		}
		rec.Announce = verifkit.Pick(rng, 0, 0, 1, 1, 2)
		if len(rec.Ticks) == 0 && rec.Announce == 0 {
			rec.Ticks = []int{rng.Intn(len(nodes))}
		}
		triggered := make([]bool, len(nodes))
		trigN := make([]int, len(nodes)) // how many (possibly overlapping) triggers the node saw
		var tmu sync.Mutex
		var wg sync.WaitGroup
		start := make(chan struct{})
		for _, i := range rec.Ticks {
			triggered[i] = true
			trigN[i]++
			wg.Add(1)
			go func(n *c27wNode) {
				defer wg.Done()
				<-start
				c27wTick(n.cw)
			}(nodes[i])
		}
		for a := 0; a < rec.Announce; a++ {
			bus.Publish(context.Background(), topic, time.Now().Format(time.RFC3339))
		}
		deliver := func(msgs []string, gate chan struct{}) {
			bus.mu.Lock()
			subs := append([]*c27sub(nil), bus.subs...)
			bus.mu.Unlock()
			for _, m := range msgs {
				for _, s := range subs {
					if !s.open {
						continue
					}
					rec.Delivered++
					wg.Add(1)
					go func(s *c27sub, m string) {
						defer wg.Done()
						if gate != nil {
							<-gate
						}
						tmu.Lock()
						triggered[s.node] = true
						trigN[s.node]++
						tmu.Unlock()
						s.cb(context.Background(), m)
					}(s, m)
				}
			}
		}
		deliver(bus.take(), start)
		close(start)
		wg.Wait()
		for round := 0; ; round++ {
			msgs := bus.take()
			if len(msgs) == 0 {
				break
			}
			if round > 50 {
				run.Inconclusive("announcement storm did not die down")
				return
			}
			deliver(msgs, nil)
			wg.Wait()
		}
		rec.Triggered = triggered
		for _, e := range log.Events[logMark:] {
			if s, ok := e.Fields["error"].(string); ok && len(rec.Logged) < 2 {
				if len(s) > 160 {
					s = s[:160] + "…"
				}
				rec.Logged = append(rec.Logged, strings.ReplaceAll(s, dir, "<dir>"))
			}
		}
		run.Count("steps", 1)
		run.Count("announcements_delivered", int64(rec.Delivered))

		// ---- compare every node with its model
		rec.Applied = make([]bool, len(nodes))
		fmt.Fprintf(&abstract, "%s/%s/t%v/a%d;", rec.CfgKind, rec.RulesKind, rec.Ticks, rec.Announce)
		type verdict struct {
			sig, what string
			detail    []string
		}
		var verdicts []verdict
		for i, n := range nodes {
			changed := readable && (!bytes.Equal(diskCfg, n.appliedCfg) || !bytes.Equal(diskRules, n.appliedRules))
			expectApply := triggered[i] && changed && accept
			after := c27wSnapshot(n.cfg)
			gotOld := len(c27wDiff(after, before[i])) == 0
			gotNew := accept && len(c27wDiff(after, refSnap)) == 0
			rec.Applied[i] = gotNew && !gotOld
			onlyPubsub := triggered[i] && !containsInt(rec.Ticks, i)
			switch {
			case expectApply && gotNew:
				run.Count("changes_applied", 1)
				if onlyPubsub {
					pubsubApplied = true
					run.Count("changes_applied_by_pubsub_trigger", 1)
				}
			case expectApply && gotOld:
				sig := "C27/Reload/acceptable-change-not-applied"
				if trigN[i] > 1 {
					sig = "C27/Reload/concurrent-acceptable-change-not-applied"
				}
				if refErr != nil {
					sig = "C27/Reload/warning-only-change-not-applied"
				}
				verdicts = append(verdicts, verdict{sig, fmt.Sprintf("node %d was triggered (tick=%v), startup %s the changed files, nothing was applied", i, containsInt(rec.Ticks, i), rec.Startup), c27wDiff(after, refSnap)})
			case expectApply:
				verdicts = append(verdicts, verdict{"C27/Reload/change-partially-applied", fmt.Sprintf("node %d matches neither the new nor the previous configuration", i), c27wDiff(after, refSnap)})
			case !gotOld:
				cls := "unchanged-content"
				switch {
				case !triggered[i]:
					cls = "nothing-without-trigger"
				case changed || !readable:
					cls = "content-startup-rejects"
				}
				verdicts = append(verdicts, verdict{"C27/Reload/running-config-altered-by-" + cls, fmt.Sprintf("node %d changed its getters (startup %s, changed=%v, triggered=%v)", i, rec.Startup, changed, triggered[i]), c27wDiff(after, before[i])})
			default:
				if triggered[i] && (changed || !readable) {
					refused = true
					run.Count("changes_refused", 1)
				}
			}
			for li, l := range n.listeners {
				l.mu.Lock()
				calls := append([]c27wCall(nil), l.calls[marks[i][li]:]...)
				l.mu.Unlock()
				switch {
				case expectApply && len(calls) == 1:
					hc, hr := ref.GetHashes()
					if calls[0].Cfg != hc || calls[0].Rules != hr {
						verdicts = append(verdicts, verdict{"C27/Reload/listener-notified-with-other-hashes", fmt.Sprintf("node %d listener %d got %v, startup has (%s,%s)", i, li, calls[0], hc, hr), nil})
					}
					run.Count("notifications_checked", 1)
				case expectApply && len(calls) == 0:
					if gotNew {
						verdicts = append(verdicts, verdict{"C27/Reload/listener-not-notified-of-applied-change", fmt.Sprintf("node %d listener %d got no callback", i, li), nil})
					}
				case expectApply:
					sig := "C27/Reload/change-applied-more-than-once"
					if trigN[i] > 1 {
						sig = "C27/Reload/concurrent-change-applied-more-than-once"
					}
					verdicts = append(verdicts, verdict{sig, fmt.Sprintf("node %d listener %d got %d callbacks %v for one change", i, li, len(calls), calls), nil})
				case len(calls) != 0:
					verdicts = append(verdicts, verdict{"C27/Reload/listener-notified-without-applied-change", fmt.Sprintf("node %d listener %d got %d callbacks, nothing was to be applied", i, li, len(calls)), nil})
				}
			}
			// the model follows what the node actually runs
			if accept {
				hc, hr := n.cfg.GetHashes()
				rc, rr := ref.GetHashes()
				if hc == rc && hr == rr {
					n.appliedCfg, n.appliedRules = diskCfg, diskRules
				}
			}
		}
		hist = append(hist, rec)
		for _, v := range verdicts {
			run.Violation(v.sig, v.what+" [via ConfigWatcher]", map[string]any{"version": version, "nodes": len(nodes), "history": hist,
				"config_on_disk": string(diskCfg), "rules_on_disk": string(diskRules), "detail": v.detail})
		}
	}
	if pubsubApplied && refused {
		run.Nontrivial(abstract.String())
	}
	run.Sample(map[string]any{"version": version, "nodes": len(nodes), "history": hist})
}

func containsInt(xs []int, x int) bool {
	for _, y := range xs {
		if y == x {
			return true
		}
	}
	return false
}

// ---- the REAL monitor() loop -------------------------------------------------------------

// c27wCounting wraps the Config handed to the ConfigWatcher and counts the reloads the
// monitor loop performs (counted when Reload returns).
type c27wCounting struct {
	config.Config
	attempts atomic.Int64
	failures atomic.Int64
}

func (c *c27wCounting) Reload(opts ...config.ReloadedConfigDataOption) error {
	err := c.Config.Reload(opts...)
	if err != nil {
		c.failures.Add(1)
	}
	c.attempts.Add(1)
	return err
}

const c27wInterval = 40 * time.Millisecond

type c27wPhase struct {
	Phase            string `json:"phase"`
	Kind             string `json:"content"`
	AttemptsBefore   int64  `json:"reload_attempts_before"`
	AttemptsAfter    int64  `json:"reload_attempts_after"`
	FailuresAfter    int64  `json:"failed_reloads_total"`
	ControlTicks     int    `json:"control_ticks_waited"`
	Applied          bool   `json:"applied"`
	ListenerCalls    int    `json:"listener_calls_total"`
	ExpectedPrefix   string `json:"expected_dataset_prefix,omitempty"`
	EffectivePrefix  string `json:"effective_dataset_prefix,omitempty"`
	LastLoggedReload string `json:"last_logged_error,omitempty"`
}

// c27wRealMonitor starts a real ConfigWatcher whose monitor() loop runs on a 40ms
// interval and walks it through: valid -> (changed)? -> rejected content (1-2 times) ->
// repaired AND changed content, which the timer-driven reload must apply. "Never fires
// again" is decided as bounded progress: after the repair, 25 ticks of a control ticker
// with the same interval pass without the loop completing a single Reload attempt.
func c27wRealMonitor(t *testing.T, run *verifkit.Run, rng *verifkit.Rand) {
	dir, err := os.MkdirTemp(t.TempDir(), "m")
	if err != nil {
		t.Fatal(err)
	}
	cfgPath, rulesPath := filepath.Join(dir, "config.yaml"), filepath.Join(dir, "rules.yaml")
	next := rng.Range(1, 500)
	fresh := func() int { next++; return next }
	mkCfg := func(k int) []byte {
		return []byte(strings.Replace(c27wCfg(k, ""), "ConfigReloadInterval: 24h", "ConfigReloadInterval: "+c27wInterval.String(), 1))
	}
	k := fresh()
	goodRules := []byte(c27wRules(fresh()))
	c27wWrite(t, cfgPath, mkCfg(k))
	c27wWrite(t, rulesPath, goodRules)
	o, err := config.NewCmdEnvOptions([]string{"--config", cfgPath, "--rules_config", rulesPath})
	if err != nil {
		t.Fatal(err)
	}
	inner, err := config.NewConfig(o)
	if inner == nil {
		t.Fatalf("c27w: real-monitor: initial NewConfig: %v", err)
	}
	cc := &c27wCounting{Config: inner}
	log := &logger.MockLogger{}
	cw := &ConfigWatcher{Config: cc, PubSub: &c27bus{}, Logger: log}
	var lmu sync.Mutex
	calls := 0
	inner.RegisterReloadCallback(func(string, string) { lmu.Lock(); calls++; lmu.Unlock() })
	nCalls := func() int { lmu.Lock(); defer lmu.Unlock(); return calls }
	if err := cw.Start(); err != nil {
		t.Fatal(err)
	}
	stopped := false
	stop := func() {
		if !stopped {
			stopped = true
			cw.Stop()
		}
	}
	ctrl := time.NewTicker(c27wInterval)
	defer ctrl.Stop()
	hardBound := time.After(90 * time.Second)
	// waitFor polls cond on every control tick; gives up (false) after maxTicks ticks.
	waitFor := func(maxTicks int, cond func(ticks int) bool) (ticks int, ok bool, inconclusive bool) {
		for {
			if cond(ticks) {
				return ticks, true, false
			}
			if ticks >= maxTicks {
				return ticks, false, false
			}
			select {
			case <-ctrl.C:
				ticks++
			case <-hardBound:
				return ticks, false, true
			}
		}
	}
	var hist []c27wPhase
	var abstract strings.Builder
	note := func(p c27wPhase) {
		p.AttemptsAfter, p.FailuresAfter, p.ListenerCalls = cc.attempts.Load(), cc.failures.Load(), nCalls()
		p.EffectivePrefix = inner.GetDatasetPrefix()
		if n := len(log.Events); n > 0 {
			if s, ok := log.Events[n-1].Fields["error"].(string); ok {
				if len(s) > 140 {
					s = s[:140] + "…"
				}
				p.LastLoggedReload = strings.ReplaceAll(s, dir, "<dir>")
			}
		}
		hist = append(hist, p)
		fmt.Fprintf(&abstract, "%s/%s;", p.Phase, p.Kind)
	}
	witness := func() any {
		return map[string]any{"interval": c27wInterval.String(), "phases": hist}
	}

	// the loop is alive: it completes reload attempts on unchanged content
	a0 := cc.attempts.Load()
	ticks, ok, inc := waitFor(2000, func(int) bool { return cc.attempts.Load() >= a0+2 })
	note(c27wPhase{Phase: "warm-up", Kind: "unchanged", AttemptsBefore: a0, ControlTicks: ticks})
	if inc || !ok {
		// the wall-clock loop did not even start ticking within the bound: say nothing
		stop()
		run.Inconclusive("real-monitor: no timer-driven reload attempt observed during warm-up")
		return
	}
	defer stop() // the loop has run, so cw.done is set

	expectedCalls := 0
	// apply expects the timer to pick up an acceptable change; returns false to abort the case
	apply := func(phase string, afterRejected bool) bool {
		k = fresh()
		want := fmt.Sprintf("p%d", k)
		before := cc.attempts.Load()
		c27wWrite(t, cfgPath, mkCfg(k))
		if afterRejected {
			c27wWrite(t, rulesPath, goodRules)
		}
		expectedCalls++
		applied := func() bool { return inner.GetDatasetPrefix() == want && nCalls() >= expectedCalls }
		// wait, counted in control ticks, until the change is applied, or the loop has
		// completed 4 attempts without applying it, or 25 ticks passed without any attempt
		const K = 25
		ticks, _, inc := waitFor(4000, func(ticks int) bool {
			return applied() || cc.attempts.Load() >= before+4 || (ticks >= K && cc.attempts.Load() == before)
		})
		if inc {
			note(c27wPhase{Phase: phase, Kind: "valid change", AttemptsBefore: before, ControlTicks: ticks, ExpectedPrefix: want})
			run.Inconclusive("real-monitor: hard wall-clock bound reached")
			return false
		}
		verdict := "not-applied"
		if cc.attempts.Load() == before {
			verdict = "not-attempted"
		}
		note(c27wPhase{Phase: phase, Kind: "valid change", AttemptsBefore: before, ControlTicks: ticks, Applied: applied(), ExpectedPrefix: want})
		switch {
		case applied():
			run.Count("real_monitor_changes_applied_by_timer", 1)
			if afterRejected {
				run.Count("real_monitor_changes_applied_after_rejected_reload", 1)
			}
			return true
		case verdict == "not-attempted":
			sig := "C27/watcher/timer-reload-not-attempted"
			if afterRejected {
				sig = "C27/watcher/timer-reload-not-attempted-after-rejected-reload"
			}
			run.Violation(sig, fmt.Sprintf("the config was changed to acceptable content; during %d control ticks of the %s reload interval the monitor loop completed no reload attempt (it completed %d before), the change is not applied", ticks, c27wInterval, before), witness())
		default:
			run.Violation("C27/Reload/acceptable-change-not-applied",
				fmt.Sprintf("the timer-driven monitor completed %d reload attempts after the change, nothing was applied [via real monitor loop]", cc.attempts.Load()-before), witness())
		}
		return false
	}

	if rng.Chance(0.5) {
		if !apply("change before any rejection", false) {
			return
		}
	}
	for n := rng.Range(1, 2); n > 0; n-- {
		kind := verifkit.Pick(rng, "config invalid", "config unparsable", "config unreadable", "rules invalid", "rules unreadable")
		before, f0 := cc.attempts.Load(), cc.failures.Load()
		switch kind {
		case "config invalid":
			c27wWrite(t, cfgPath, append(mkCfg(fresh()), []byte(fmt.Sprintf(c27wCfgInvalid[0], 1))...))
		case "config unparsable":
			c27wWrite(t, cfgPath, []byte("General: [unclosed\n"))
		case "config unreadable":
			os.Remove(cfgPath)
		case "rules invalid":
			c27wWrite(t, rulesPath, []byte(fmt.Sprintf(c27wRulesInvalid[0], 7)))
		case "rules unreadable":
			os.Remove(rulesPath)
		}
		ticks, ok, inc := waitFor(4000, func(ticks int) bool {
			return cc.failures.Load() > f0 || (ticks >= 25 && cc.attempts.Load() == before)
		})
		note(c27wPhase{Phase: "rejected content", Kind: kind, AttemptsBefore: before, ControlTicks: ticks})
		if !inc && ok && cc.failures.Load() == f0 {
			// no attempt at all for 25 ticks: go on to the repair, which decides
			run.Count("real_monitor_no_attempt_while_content_rejected", 1)
			break
		}
		if inc || !ok {
			run.Inconclusive("real-monitor: no rejected timer-driven reload observed")
			return
		}
		run.Count("real_monitor_rejected_reloads_observed", 1)
		if nCalls() != expectedCalls {
			run.Violation("C27/Reload/listener-notified-without-applied-change",
				fmt.Sprintf("%d listener calls, %d changes applied so far [via real monitor loop]", nCalls(), expectedCalls), witness())
			return
		}
	}
	if !apply("repaired and changed content", true) {
		return
	}
	// a few more intervals: no further notification for the same change
	waitFor(8, func(int) bool { return false })
	if n := nCalls(); n != expectedCalls {
		note(c27wPhase{Phase: "quiet", Kind: "unchanged"})
		run.Violation("C27/Reload/change-applied-more-than-once",
			fmt.Sprintf("%d listener calls for %d applied changes [via real monitor loop]", n, expectedCalls), witness())
		return
	}
	run.Nontrivial("real-monitor/" + abstract.String())
	run.Sample(map[string]any{"real_monitor_phases": hist})
}
