//go:build verif

package verifkit

import (
	"bufio"
	"fmt"
	"os"
	"os/exec"
	"path/filepath"
	"regexp"
	"strconv"
	"strings"
	"time"
)

// Child-process crash containment (engine E8).
//
// The parent test writes a batch of inputs to a file and re-executes its own
// test binary with -test.run=<childTest>. The child appends "S <i>" to a
// write-ahead log before executing input i and "D <i> <note>" after it. A
// child that dies leaves an "S" without a "D": that input is the witness.

const (
	EnvChildBatch = "VERIF_CHILD_BATCH"
	EnvChildWAL   = "VERIF_CHILD_WAL"
	EnvChildStart = "VERIF_CHILD_START"
)

// ChildOutcome describes one child execution.
type ChildOutcome struct {
	Done      map[int]string // input index -> note written by the child
	CrashedAt int            // -1 if the child exited normally
	TimedOut  bool
	Output    string // combined stdout/stderr of the child
	Site      string // first refinery frame of the panicking goroutine
	Message   string // normalised panic / fatal error message
}

// InChild reports whether this process is a child and returns its parameters.
func InChild() (batchFile string, start int, ok bool) {
	b := os.Getenv(EnvChildBatch)
	if b == "" {
		return "", 0, false
	}
	s, _ := strconv.Atoi(os.Getenv(EnvChildStart))
	return b, s, true
}

// WAL is the child's write-ahead log.
type WAL struct{ f *os.File }

func OpenWAL() (*WAL, error) {
	f, err := os.OpenFile(os.Getenv(EnvChildWAL), os.O_APPEND|os.O_CREATE|os.O_WRONLY, 0o644)
	if err != nil {
		return nil, err
	}
	return &WAL{f: f}, nil
}

func (w *WAL) Begin(i int) { fmt.Fprintf(w.f, "S %d\n", i) }
func (w *WAL) Done(i int, note string) {
	fmt.Fprintf(w.f, "D %d %s\n", i, strings.ReplaceAll(note, "\n", " "))
}
func (w *WAL) Close() { w.f.Close() }

// RunChild executes childTest in a fresh process over batchFile starting at
// input index start. extraEnv entries are "K=V".
func RunChild(dir, childTest, batchFile string, start int, timeout time.Duration, extraEnv ...string) ChildOutcome {
	wal := filepath.Join(dir, fmt.Sprintf("wal-%d-%d", os.Getpid(), time.Now().UnixNano()))
	outFile := wal + ".out"
	f, _ := os.Create(outFile)
	cmd := exec.Command(os.Args[0], "-test.run=^"+childTest+"$", "-test.count=1", "-test.timeout="+timeout.String())
	cmd.Env = append(os.Environ(), EnvChildBatch+"="+batchFile, EnvChildWAL+"="+wal, EnvChildStart+"="+strconv.Itoa(start), "GOTRACEBACK=all")
	cmd.Env = append(cmd.Env, extraEnv...)
	cmd.Stdout = f
	cmd.Stderr = f
	err := cmd.Run()
	f.Close()
	ob, _ := os.ReadFile(outFile)
	out := ChildOutcome{Done: map[int]string{}, CrashedAt: -1, Output: string(ob)}
	lastStart := -1
	if wf, e := os.Open(wal); e == nil {
		sc := bufio.NewScanner(wf)
		sc.Buffer(make([]byte, 1<<20), 1<<20)
		for sc.Scan() {
			parts := strings.SplitN(sc.Text(), " ", 3)
			if len(parts) < 2 {
				continue
			}
			i, _ := strconv.Atoi(parts[1])
			switch parts[0] {
			case "S":
				lastStart = i
			case "D":
				note := ""
				if len(parts) > 2 {
					note = parts[2]
				}
				out.Done[i] = note
				if lastStart == i {
					lastStart = -1
				}
			}
		}
		wf.Close()
	}
	os.Remove(wal)
	os.Remove(outFile)
	if err != nil {
		out.CrashedAt = lastStart
		out.TimedOut = strings.Contains(out.Output, "panic: test timed out")
		out.Site, out.Message = CrashSite(out.Output)
		if out.CrashedAt < 0 {
			// died outside any input (harness problem): report as crash at start
			out.CrashedAt = -2
		}
	}
	return out
}

var (
	reHex   = regexp.MustCompile(`0x[0-9a-fA-F]+`)
	reNum   = regexp.MustCompile(`[0-9]+`)
	reFrame = regexp.MustCompile(`^(github\.com/honeycombio/refinery/[^\s(]+(?:\([^)]*\))?[^\s(]*)\(`)
)

// CrashSite extracts (first non-harness refinery frame of the crashing
// goroutine, normalised message) from a Go crash dump.
func CrashSite(out string) (site, msg string) {
	lines := strings.Split(out, "\n")
	start := -1
	for i, l := range lines {
		if strings.HasPrefix(l, "panic: ") || strings.HasPrefix(l, "fatal error: ") {
			if msg == "" {
				m := strings.TrimPrefix(strings.TrimPrefix(l, "panic: "), "fatal error: ")
				if k := strings.Index(m, " [recovered"); k >= 0 {
					m = m[:k]
				}
				m = reHex.ReplaceAllString(m, "X")
				m = reNum.ReplaceAllString(m, "N")
				if len(m) > 80 {
					m = m[:80]
				}
				msg = m
			}
		}
		if start < 0 && strings.HasPrefix(l, "goroutine ") && strings.Contains(l, "[running]") {
			start = i
		}
	}
	if start < 0 {
		// no crash dump: the process exited on its own (os.Exit); the last
		// error-level log line written by ErrLogPrefix names the site
		last := ""
		for _, l := range lines {
			if strings.HasPrefix(l, ErrLogPrefix) {
				last = strings.TrimSpace(strings.TrimPrefix(l, ErrLogPrefix))
			}
		}
		if last != "" {
			return "os.Exit", last
		}
		return "unknown", msg
	}
	fallback := ""
	for i := start + 1; i < len(lines); i++ {
		l := lines[i]
		if l == "" {
			break
		}
		if fallback == "" && !strings.HasPrefix(l, "\t") && !strings.HasPrefix(l, "created by") {
			fn := l
			if k := strings.LastIndex(fn, "("); k > 0 {
				fn = fn[:k]
			}
			skip := false
			for _, pre := range []string{"runtime.", "time.", "testing.", "panic", "math/rand.", "sync.", "reflect."} {
				if strings.HasPrefix(fn, pre) {
					skip = true
				}
			}
			if !skip && !strings.Contains(fn, "honeycombio/refinery/") {
				parts := strings.Split(fn, "/")
				if len(parts) > 2 {
					parts = parts[len(parts)-2:]
				}
				fallback = strings.Join(parts, "/")
			}
		}
		if m := reFrame.FindStringSubmatch(l); m != nil {
			fn := strings.TrimPrefix(m[1], "github.com/honeycombio/refinery/")
			// skip harness frames
			file := ""
			if i+1 < len(lines) {
				file = lines[i+1]
			}
			if strings.Contains(fn, "verifkit") || strings.Contains(file, "zz_verif_") || strings.Contains(fn, "TestVerif") || strings.Contains(fn, "c28") {
				continue
			}
			return fn, msg
		}
	}
	if fallback != "" {
		return fallback, msg
	}
	return "unknown", msg
}

// ErrLogPrefix marks error-level log lines written by harness loggers so that
// a process that exits on its own (os.Exit after logging) can be attributed.
const ErrLogPrefix = "VERIF-ERRLOG: "
