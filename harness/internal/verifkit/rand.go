//go:build verif

package verifkit

import (
	"hash/fnv"
	"math"
)

// Rand is a splitmix64 PRNG. It is deliberately not safe for concurrent use:
// fork one per goroutine.
type Rand struct{ s uint64 }

func NewRand(seed uint64) *Rand { return &Rand{s: seed*0x9E3779B97F4A7C15 + 0x1234567} }

func (r *Rand) Uint64() uint64 {
	r.s += 0x9E3779B97F4A7C15
	z := r.s
	z = (z ^ (z >> 30)) * 0xBF58476D1CE4E5B9
	z = (z ^ (z >> 27)) * 0x94D049BB133111EB
	return z ^ (z >> 31)
}

// Fork derives an independent stream from this stream's *initial* position and
// a label; it does not advance r.
func (r *Rand) Fork(label string) *Rand {
	h := fnv.New64a()
	h.Write([]byte(label))
	return &Rand{s: (r.s ^ h.Sum64()) * 0xD6E8FEB86659FD93}
}

func (r *Rand) Intn(n int) int {
	if n <= 0 {
		return 0
	}
	return int(r.Uint64() % uint64(n))
}

func (r *Rand) Int63() int64 { return int64(r.Uint64() >> 1) }

// Range returns lo..hi inclusive.
func (r *Rand) Range(lo, hi int) int {
	if hi <= lo {
		return lo
	}
	return lo + r.Intn(hi-lo+1)
}

func (r *Rand) Bool() bool { return r.Uint64()&1 == 1 }

// Chance is true with probability p.
func (r *Rand) Chance(p float64) bool { return r.Float64() < p }

func (r *Rand) Float64() float64 { return float64(r.Uint64()>>11) / float64(uint64(1)<<53) }

func (r *Rand) NormFloat64() float64 {
	u1 := r.Float64()
	if u1 < 1e-300 {
		u1 = 1e-300
	}
	return math.Sqrt(-2*math.Log(u1)) * math.Cos(2*math.Pi*r.Float64())
}

func (r *Rand) Perm(n int) []int {
	p := make([]int, n)
	for i := range p {
		p[i] = i
	}
	for i := n - 1; i > 0; i-- {
		j := r.Intn(i + 1)
		p[i], p[j] = p[j], p[i]
	}
	return p
}

func (r *Rand) Hex(n int) string {
	const d = "0123456789abcdef"
	b := make([]byte, n)
	for i := range b {
		b[i] = d[r.Intn(16)]
	}
	return string(b)
}

// Pick returns one element of xs.
func Pick[T any](r *Rand, xs ...T) T { return xs[r.Intn(len(xs))] }

// Shuffle permutes xs in place.
func Shuffle[T any](r *Rand, xs []T) {
	for i := len(xs) - 1; i > 0; i-- {
		j := r.Intn(i + 1)
		xs[i], xs[j] = xs[j], xs[i]
	}
}
