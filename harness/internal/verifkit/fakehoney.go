//go:build verif

package verifkit

// fakehoney.go: a fake Honeycomb API server for the in-process cluster engine
// (E2) and a decoder for Honeycomb batch bodies that is independent of
// Refinery's own encoders/decoders (tinylib/msgp code in /repo/types and
// /repo/transmit is not used here: bodies are decoded with
// vmihailenco/msgpack, encoding/json, klauspost zstd and compress/gzip).
//
// Used by C16, C17, C36 (package app); meant to be reused by C20 and C35.
//
//	h := verifkit.NewFakeHoney()
//	defer h.Close()
//	cfg.GetHoneycombAPIVal = h.URL()
//	...
//	for _, ev := range h.Events() { ev.Data["verif.id"] ... ev.Req.APIKey ... }
//
// Every request is logged in arrival order, whether or not its body could be
// decoded. The server never drops, reorders or rewrites anything; it answers
// what a scripted Responder says, by default 200 + one {"status":202} per event.

import (
	"bytes"
	"compress/gzip"
	"encoding/json"
	"fmt"
	"io"
	"net"
	"net/http"
	"net/url"
	"strings"
	"sync"
	"time"

	"github.com/klauspost/compress/zstd"
	"github.com/vmihailenco/msgpack/v5"
)

// HoneyEvent is one event of a decoded batch body, exactly as it was on the
// wire: Data values keep their wire types (msgpack int8/uint16/float32/...,
// JSON numbers as json.Number) so that callers interested in encoding
// fidelity can look at them; use AsInt64/AsFloat64/AsBool/AsString to compare
// semantically.
type HoneyEvent struct {
	Index         int            `json:"index"` // position in the batch
	HasTime       bool           `json:"has_time"`
	Time          time.Time      `json:"time"`     // valid if HasTime and the wire value was a timestamp or an RFC3339 string
	TimeRaw       any            `json:"time_raw"` // the wire value of "time" (time.Time for msgpack timestamp ext, string for JSON)
	HasSampleRate bool           `json:"has_samplerate"`
	SampleRate    int64          `json:"samplerate"`
	SampleRateRaw any            `json:"samplerate_raw"`
	Data          map[string]any `json:"data"`
	Extra         map[string]any `json:"extra,omitempty"` // top-level keys other than time/samplerate/data
}

// HoneyRequest is one HTTP request as received.
type HoneyRequest struct {
	Seq             int          `json:"seq"`    // arrival order, from 0
	Server          string       `json:"server"` // base URL of the fake that received it
	Method          string       `json:"method"`
	Host            string       `json:"host"` // Host header
	Path            string       `json:"path"` // decoded path
	RawPath         string       `json:"raw_path"`
	Query           string       `json:"query,omitempty"`
	APIKey          string       `json:"api_key"` // X-Honeycomb-Team
	Dataset         string       `json:"dataset"` // for /1/batch/<dataset> and /1/events/<dataset>, unescaped
	ContentType     string       `json:"content_type"`
	ContentEncoding string       `json:"content_encoding"`
	UserAgent       string       `json:"user_agent"`
	Header          http.Header  `json:"header"`
	BodyLen         int          `json:"body_len"` // bytes on the wire (compressed)
	IsBatch         bool         `json:"is_batch"`
	Events          []HoneyEvent `json:"events"`
	DecodeErr       string       `json:"decode_err,omitempty"`
	Status          int          `json:"status"` // what the fake answered
	Body            []byte       `json:"-"`      // decompressed body (kept only if KeepBodies)
}

// FlatEvent is an event together with the request that carried it.
type FlatEvent struct {
	HoneyEvent
	Req *HoneyRequest `json:"-"`
}

// HoneyResponse scripts the answer to one request. Zero Status means 200.
// For batch requests EventStatus gives the per-event status (default 202 for
// every decoded event); Raw, when non-nil, replaces the body entirely.
type HoneyResponse struct {
	Status      int
	EventStatus []int
	Raw         []byte
	ContentType string
	Header      map[string]string
	// Hold, if non-nil, is waited on before answering (to keep requests in
	// flight); the request is logged before the wait.
	Hold <-chan struct{}
}

// FakeHoney is a fake Honeycomb API endpoint listening on a loopback port
// chosen at run time.
type FakeHoney struct {
	// KeepBodies keeps the decompressed body bytes of every request.
	KeepBodies bool

	ln        net.Listener
	srv       *http.Server
	url       string
	mu        sync.Mutex
	reqs      []*HoneyRequest
	responder func(*HoneyRequest) *HoneyResponse
	envFor    func(key string) (team, env, keyID string, ok bool)
	closed    bool
}

// NewFakeHoney starts a fake Honeycomb on 127.0.0.1:<free port>. It panics if
// no loopback port can be bound (harness failure, not a verdict).
func NewFakeHoney() *FakeHoney {
	ln, err := net.Listen("tcp", "127.0.0.1:0")
	if err != nil {
		panic("verifkit.NewFakeHoney: " + err.Error())
	}
	h := &FakeHoney{ln: ln, url: "http://" + ln.Addr().String()}
	h.srv = &http.Server{Handler: http.HandlerFunc(h.serve)}
	go h.srv.Serve(ln)
	return h
}

// URL is the base URL to configure as HoneycombAPI.
func (h *FakeHoney) URL() string { return h.url }

// HostPort is the Host header value requests to this fake carry.
func (h *FakeHoney) HostPort() string { return h.ln.Addr().String() }

// Close stops the server (idempotent). The log stays readable.
func (h *FakeHoney) Close() {
	h.mu.Lock()
	if h.closed {
		h.mu.Unlock()
		return
	}
	h.closed = true
	h.mu.Unlock()
	h.srv.Close()
}

// SetResponder installs a script consulted for every request after it was
// decoded and logged; returning nil gives the default answer.
func (h *FakeHoney) SetResponder(f func(*HoneyRequest) *HoneyResponse) {
	h.mu.Lock()
	h.responder = f
	h.mu.Unlock()
}

// SetAuth scripts GET /1/auth (environment lookup for non-classic keys).
// Default: every key belongs to team "verif-team", environment "env-"+key,
// key id "kid-"+key. ok=false answers 401.
func (h *FakeHoney) SetAuth(f func(key string) (team, env, keyID string, ok bool)) {
	h.mu.Lock()
	h.envFor = f
	h.mu.Unlock()
}

// Requests returns a snapshot of the request log in arrival order.
func (h *FakeHoney) Requests() []*HoneyRequest {
	h.mu.Lock()
	defer h.mu.Unlock()
	out := make([]*HoneyRequest, len(h.reqs))
	copy(out, h.reqs)
	return out
}

// Events returns every event of every batch/event request, in arrival order.
func (h *FakeHoney) Events() []FlatEvent {
	var out []FlatEvent
	for _, r := range h.Requests() {
		for _, e := range r.Events {
			out = append(out, FlatEvent{HoneyEvent: e, Req: r})
		}
	}
	return out
}

// EventCount is the number of events received so far.
func (h *FakeHoney) EventCount() int {
	h.mu.Lock()
	defer h.mu.Unlock()
	n := 0
	for _, r := range h.reqs {
		n += len(r.Events)
	}
	return n
}

func (h *FakeHoney) serve(w http.ResponseWriter, r *http.Request) {
	raw, rerr := io.ReadAll(r.Body)
	r.Body.Close()
	req := &HoneyRequest{
		Server:          h.url,
		Method:          r.Method,
		Host:            r.Host,
		Path:            r.URL.Path,
		RawPath:         r.URL.EscapedPath(),
		Query:           r.URL.RawQuery,
		APIKey:          r.Header.Get("X-Honeycomb-Team"),
		ContentType:     r.Header.Get("Content-Type"),
		ContentEncoding: r.Header.Get("Content-Encoding"),
		UserAgent:       r.Header.Get("User-Agent"),
		Header:          r.Header.Clone(),
		BodyLen:         len(raw),
	}
	if rerr != nil {
		req.DecodeErr = "read body: " + rerr.Error()
	}
	esc := r.URL.EscapedPath()
	switch {
	case strings.HasPrefix(esc, "/1/batch/"):
		req.IsBatch = true
		req.Dataset = unescapeOr(strings.TrimPrefix(esc, "/1/batch/"))
		if rerr == nil {
			body, evs, err := DecodeBatchBody(req.ContentType, req.ContentEncoding, raw)
			req.Events = evs
			if err != nil {
				req.DecodeErr = err.Error()
			}
			if h.KeepBodies {
				req.Body = body
			}
		}
	case strings.HasPrefix(esc, "/1/events/"):
		req.Dataset = unescapeOr(strings.TrimPrefix(esc, "/1/events/"))
		if rerr == nil {
			body, ev, err := decodeSingleEvent(req.ContentType, req.ContentEncoding, raw)
			if err != nil {
				req.DecodeErr = err.Error()
			} else {
				req.Events = []HoneyEvent{ev}
			}
			if h.KeepBodies {
				req.Body = body
			}
		}
	default:
		if h.KeepBodies {
			req.Body = raw
		}
	}

	h.mu.Lock()
	req.Seq = len(h.reqs)
	h.reqs = append(h.reqs, req)
	responder := h.responder
	envFor := h.envFor
	h.mu.Unlock()

	var resp *HoneyResponse
	if responder != nil {
		resp = responder(req)
	}
	if resp != nil && resp.Hold != nil {
		<-resp.Hold
	}
	if resp == nil {
		resp = &HoneyResponse{}
		if esc == "/1/auth" {
			team, env, kid, ok := "verif-team", "env-"+req.APIKey, "kid-"+req.APIKey, true
			if envFor != nil {
				team, env, kid, ok = envFor(req.APIKey)
			}
			if !ok {
				resp.Status = http.StatusUnauthorized
				resp.Raw = []byte(`{"error":"unknown API key"}`)
			} else {
				b, _ := json.Marshal(map[string]any{
					"id":             kid,
					"api_key_access": map[string]bool{"events": true},
					"team":           map[string]string{"slug": team, "name": team},
					"environment":    map[string]string{"slug": env, "name": env},
				})
				resp.Raw = b
			}
		} else if !req.IsBatch {
			resp.Raw = []byte(`{}`)
		}
	}
	status := resp.Status
	if status == 0 {
		status = http.StatusOK
	}
	body := resp.Raw
	ct := resp.ContentType
	if body == nil && req.IsBatch {
		sts := make([]map[string]int, len(req.Events))
		for i := range sts {
			s := http.StatusAccepted
			if i < len(resp.EventStatus) && resp.EventStatus[i] != 0 {
				s = resp.EventStatus[i]
			}
			sts[i] = map[string]int{"status": s}
		}
		body, _ = json.Marshal(sts)
	}
	if ct == "" {
		ct = "application/json"
	}
	h.mu.Lock()
	req.Status = status
	h.mu.Unlock()
	for k, v := range resp.Header {
		w.Header().Set(k, v)
	}
	w.Header().Set("Content-Type", ct)
	w.WriteHeader(status)
	w.Write(body)
}

func unescapeOr(s string) string {
	if u, err := url.PathUnescape(s); err == nil {
		return u
	}
	return s
}

// Decompress undoes Content-Encoding zstd / gzip / identity.
func Decompress(contentEncoding string, raw []byte) ([]byte, error) {
	switch strings.ToLower(strings.TrimSpace(contentEncoding)) {
	case "", "identity":
		return raw, nil
	case "gzip":
		zr, err := gzip.NewReader(bytes.NewReader(raw))
		if err != nil {
			return nil, fmt.Errorf("gzip: %w", err)
		}
		defer zr.Close()
		b, err := io.ReadAll(zr)
		if err != nil {
			return nil, fmt.Errorf("gzip: %w", err)
		}
		return b, nil
	case "zstd":
		zr, err := zstd.NewReader(nil, zstd.WithDecoderConcurrency(1))
		if err != nil {
			return nil, fmt.Errorf("zstd: %w", err)
		}
		defer zr.Close()
		b, err := zr.DecodeAll(raw, nil)
		if err != nil {
			return nil, fmt.Errorf("zstd: %w", err)
		}
		return b, nil
	default:
		return nil, fmt.Errorf("unknown content-encoding %q", contentEncoding)
	}
}

func isMsgpack(ct string) bool {
	ct = strings.ToLower(ct)
	return strings.Contains(ct, "msgpack")
}

// DecodeBatchBody decodes the body of a POST /1/batch/<dataset> request
// (an array of {time, samplerate, data}) sent with the given Content-Type
// (application/msgpack, application/x-msgpack or JSON) and Content-Encoding
// (zstd, gzip or none). It returns the decompressed body, and the events
// decoded so far together with the first error.
func DecodeBatchBody(contentType, contentEncoding string, raw []byte) (body []byte, events []HoneyEvent, err error) {
	body, err = Decompress(contentEncoding, raw)
	if err != nil {
		return nil, nil, err
	}
	var items []any
	if isMsgpack(contentType) {
		dec := msgpack.NewDecoder(bytes.NewReader(body))
		var v any
		if err = dec.Decode(&v); err != nil {
			return body, nil, fmt.Errorf("msgpack: %w", err)
		}
		arr, ok := v.([]any)
		if !ok {
			return body, nil, fmt.Errorf("msgpack: batch body is %T, not an array", v)
		}
		items = arr
		// trailing garbage after the array is a malformed body
		if _, e := dec.DecodeInterface(); e != io.EOF {
			err = fmt.Errorf("msgpack: trailing data after batch array")
		}
	} else {
		dec := json.NewDecoder(bytes.NewReader(body))
		dec.UseNumber()
		if err = dec.Decode(&items); err != nil {
			return body, nil, fmt.Errorf("json: %w", err)
		}
	}
	for i, it := range items {
		m, ok := toStringMap(it)
		if !ok {
			if err == nil {
				err = fmt.Errorf("batch element %d is %T, not a map", i, it)
			}
			continue
		}
		ev, e := eventFromMap(m)
		ev.Index = i
		if e != nil && err == nil {
			err = fmt.Errorf("batch element %d: %w", i, e)
		}
		events = append(events, ev)
	}
	return body, events, err
}

func decodeSingleEvent(contentType, contentEncoding string, raw []byte) ([]byte, HoneyEvent, error) {
	body, err := Decompress(contentEncoding, raw)
	if err != nil {
		return nil, HoneyEvent{}, err
	}
	var v any
	if isMsgpack(contentType) {
		if err := msgpack.NewDecoder(bytes.NewReader(body)).Decode(&v); err != nil {
			return body, HoneyEvent{}, fmt.Errorf("msgpack: %w", err)
		}
	} else {
		dec := json.NewDecoder(bytes.NewReader(body))
		dec.UseNumber()
		if err := dec.Decode(&v); err != nil {
			return body, HoneyEvent{}, fmt.Errorf("json: %w", err)
		}
	}
	m, ok := toStringMap(v)
	if !ok {
		return body, HoneyEvent{}, fmt.Errorf("event body is %T, not a map", v)
	}
	return body, HoneyEvent{Data: m}, nil
}

func toStringMap(v any) (map[string]any, bool) {
	switch m := v.(type) {
	case map[string]any:
		return m, true
	case map[any]any:
		out := make(map[string]any, len(m))
		for k, x := range m {
			out[fmt.Sprint(k)] = x
		}
		return out, true
	}
	return nil, false
}

func eventFromMap(m map[string]any) (HoneyEvent, error) {
	var ev HoneyEvent
	var err error
	for k, v := range m {
		switch k {
		case "time":
			ev.HasTime = true
			ev.TimeRaw = v
			switch t := v.(type) {
			case time.Time:
				ev.Time = t
			case *time.Time:
				ev.Time = *t
				ev.TimeRaw = *t
			case string:
				if p, e := time.Parse(time.RFC3339Nano, t); e == nil {
					ev.Time = p
				} else if err == nil {
					err = fmt.Errorf("time %q is not RFC3339", t)
				}
			default:
				if err == nil {
					err = fmt.Errorf("time has wire type %T", v)
				}
			}
		case "samplerate":
			ev.HasSampleRate = true
			ev.SampleRateRaw = v
			if n, ok := AsInt64(v); ok {
				ev.SampleRate = n
			} else if err == nil {
				err = fmt.Errorf("samplerate has wire type %T", v)
			}
		case "data":
			d, ok := toStringMap(v)
			if !ok {
				if err == nil {
					err = fmt.Errorf("data is %T, not a map", v)
				}
				continue
			}
			ev.Data = d
		default:
			if ev.Extra == nil {
				ev.Extra = map[string]any{}
			}
			ev.Extra[k] = v
		}
	}
	if ev.Data == nil {
		ev.Data = map[string]any{}
	}
	return ev, err
}

// AsInt64 converts any integer-valued wire value to int64.
func AsInt64(v any) (int64, bool) {
	switch n := v.(type) {
	case int:
		return int64(n), true
	case int8:
		return int64(n), true
	case int16:
		return int64(n), true
	case int32:
		return int64(n), true
	case int64:
		return n, true
	case uint:
		return int64(n), true
	case uint8:
		return int64(n), true
	case uint16:
		return int64(n), true
	case uint32:
		return int64(n), true
	case uint64:
		if n > 1<<63-1 {
			return 0, false
		}
		return int64(n), true
	case float32:
		if float32(int64(n)) == n {
			return int64(n), true
		}
	case float64:
		if float64(int64(n)) == n {
			return int64(n), true
		}
	case json.Number:
		if i, err := n.Int64(); err == nil {
			return i, true
		}
	}
	return 0, false
}

// AsFloat64 converts any numeric wire value to float64.
func AsFloat64(v any) (float64, bool) {
	switch n := v.(type) {
	case float32:
		return float64(n), true
	case float64:
		return n, true
	case json.Number:
		f, err := n.Float64()
		return f, err == nil
	}
	if i, ok := AsInt64(v); ok {
		return float64(i), true
	}
	if u, ok := v.(uint64); ok {
		return float64(u), true
	}
	return 0, false
}

// AsBool reports a boolean wire value.
func AsBool(v any) (val bool, ok bool) {
	b, ok := v.(bool)
	return b, ok
}

// AsString reports a string wire value ([]byte counts as a string).
func AsString(v any) (string, bool) {
	switch s := v.(type) {
	case string:
		return s, true
	case []byte:
		return string(s), true
	}
	return "", false
}
