//go:build verif

package peer

import (
	"fmt"
	"runtime"
	"sort"
	"strings"
	"sync"
	"testing"
	"time"

	"github.com/jonboulle/clockwork"

	"github.com/honeycombio/refinery/config"
	"github.com/honeycombio/refinery/internal/verifkit"
	"github.com/honeycombio/refinery/logger"
	"github.com/honeycombio/refinery/metrics"
)

// C18: Redis peer membership converges to the live, publishing nodes; the
// membership message codec round-trips.
//
// Unit "membership": 2..5 real RedisPubsubPeers (plus restarted incarnations)
// share the E7 chaos pubsub and one FakeClock. A seeded history starts nodes,
// stops them gracefully (Done closed -> Unregister), crashes them (silence),
// makes their Publish calls fail (Redis outage),
// restarts them under a new instance id, and delays / reorders / duplicates
// messages. Then the faults stop: everything queued is delivered, the clock is
// advanced by PeerEntryTimeout + the largest refresh interval with immediate
// in-order delivery, and every live node's GetPeers() must be exactly the
// addresses of the live nodes -- and stay so for 2 x (PeerEntryTimeout + max
// refresh interval) more,
// after which a consumer that reloads GetPeers() on every change callback (as
// the sharder does) must hold that list too.
//
// Unit part "codec": peerCommand.marshal -> unmarshal over generated
// address / id strings.

// ---- adapters (only place that touches unexported identifiers) -------------

const (
	c18Refresh    = refreshCacheInterval
	c18MaxRefresh = refreshCacheInterval + refreshCacheInterval/5 // Ready() adds a jitter below 20%
)

// c18OntoFakeClock moves the node's TTL map onto the fake clock (Start builds it
// on the real clock whatever Clock was injected) and re-stamps the node's own
// entry, which Start had stamped with the real time.
func c18OntoFakeClock(p *RedisPubsubPeers, c clockwork.Clock) error {
	p.peers.Clock = c
	addr, err := publicAddr(p.Logger, p.Config)
	if err != nil {
		return err
	}
	p.peers.Set(p.InstanceID, addr)
	return nil
}

// c18Hash is the list hash whose change makes checkHash start the change callbacks.
func c18Hash(p *RedisPubsubPeers) uint64 { return p.hash }

func c18Encode(action peerAction, address, id string) string {
	return newPeerCommand(action, address, id).marshal()
}

func c18Decode(msg string) (ok bool, action peerAction, address, id string, panicked any) {
	c := &peerCommand{}
	defer func() {
		if r := recover(); r != nil {
			panicked = r
		}
	}()
	ok = c.unmarshal(msg)
	return ok, c.action, c.address, c.id, nil
}

// ---- fake clock that lets the PRNG choose the refresh jitter ------------------

// c18Clock is one node's view of the shared FakeClock. Ready() draws its refresh
// jitter from math/rand's global source; so that cases are determined by the
// seed, the node's first ticker (the refresh ticker) gets a PRNG-chosen interval
// from the same range [refresh, refresh*1.2) instead. Any other interval is
// passed through unchanged.
type c18Clock struct {
	*clockwork.FakeClock
	mu     sync.Mutex
	jitter float64 // 0 <= jitter < 1
	ticks  []*c18Ticker
	loops  int // how often the refresh goroutine has (re-)entered its select
	ended  bool // the refresh goroutine has stopped its tickers, i.e. returned
}

// c18Ticker follows one ticker of the refresh goroutine: when it fires next
// (also after a Reset by the code under test) and -- for the refresh ticker --
// how often the goroutine came back to its select (it calls Chan() there).
type c18Ticker struct {
	clockwork.Ticker
	clk      *c18Clock
	idx      int
	interval time.Duration
	next     time.Time
}

func (t *c18Ticker) Chan() <-chan time.Time {
	if t.idx == 0 {
		t.clk.mu.Lock()
		t.clk.loops++
		t.clk.mu.Unlock()
	}
	return t.Ticker.Chan()
}

func (t *c18Ticker) Reset(d time.Duration) {
	t.clk.mu.Lock()
	t.interval = d
	t.next = t.clk.FakeClock.Now().Add(d)
	t.clk.mu.Unlock()
	t.Ticker.Reset(d)
}

// Stop: the refresh goroutine stops its tickers only when it ends.
func (t *c18Ticker) Stop() {
	t.clk.mu.Lock()
	t.clk.ended = true
	t.clk.mu.Unlock()
	t.Ticker.Stop()
}

func (c *c18Clock) goroutineEnded() bool {
	c.mu.Lock()
	defer c.mu.Unlock()
	return c.ended
}

func (c *c18Clock) nextRefresh() (time.Time, bool) {
	c.mu.Lock()
	defer c.mu.Unlock()
	if len(c.ticks) == 0 {
		return time.Time{}, false
	}
	return c.ticks[0].next, true
}

func (c *c18Clock) NewTicker(d time.Duration) clockwork.Ticker {
	c.mu.Lock()
	defer c.mu.Unlock()
	if len(c.ticks) == 0 && d >= c18Refresh && d < c18MaxRefresh {
		d = c18Refresh + time.Duration(c.jitter*float64(c18MaxRefresh-c18Refresh))
		if d >= c18MaxRefresh {
			d = c18MaxRefresh - 1
		}
	}
	t := &c18Ticker{Ticker: c.FakeClock.NewTicker(d), clk: c, idx: len(c.ticks), interval: d, next: c.FakeClock.Now().Add(d)}
	c.ticks = append(c.ticks, t)
	return t
}

// fired moves every ticker whose instant has come to its next instant and says
// whether the refresh ticker / how many tickers handed a tick to the goroutine
// (a clock step is shorter than any interval, and the goroutine has consumed
// the previous tick, so each ticker hands over at most one per step).
func (c *c18Clock) fired(now time.Time) (refresh bool, handed int) {
	c.mu.Lock()
	defer c.mu.Unlock()
	for _, t := range c.ticks {
		if !t.next.After(now) {
			for !t.next.After(now) {
				t.next = t.next.Add(t.interval)
			}
			handed++
			if t.idx == 0 {
				refresh = true
			}
		}
	}
	return
}

func (c *c18Clock) state() (tickers, loops int, refreshInterval time.Duration) {
	c.mu.Lock()
	defer c.mu.Unlock()
	if len(c.ticks) > 0 {
		refreshInterval = c.ticks[0].interval
	}
	return len(c.ticks), c.loops, refreshInterval
}

// ---- nodes ------------------------------------------------------------------------

type c18node struct {
	slot  int
	addr  string
	id    string
	p     *RedisPubsubPeers
	ep    *e7Endpoint
	clk   *c18Clock
	done  chan struct{}
	state string // running | stopped | crashed

	cfg        *config.MockConfig
	host       string
	addrFault  bool      // the node's address-resolution inputs currently yield an error
	faultUntil time.Time // restore them once the fake clock has reached this instant
	goneEarly  bool      // refresh goroutine ended although Done is open (noted once)
	manual     bool      // the driver synchronises this node by hand (slow-publish family)
	doneClosed bool
	expected   int // Publish calls the goroutine must have made
	loopsDue   int // select (re-)entries the goroutine must have made
	unsynced   bool

	vmu      sync.Mutex
	view     []string // GetPeers() as read by the last change callback
	viewSeen int      // change callbacks that have run
	cbDue    int      // change callbacks checkHash must have started (driver goroutine only)
	hashWas  uint64
	cbLost   bool
}

type c18event struct {
	AtMs   int64  `json:"t_ms"`
	What   string `json:"what"`
	Node   string `json:"node,omitempty"`
	Detail string `json:"detail,omitempty"`
}

type c18world struct {
	run   *verifkit.Run
	rng   *verifkit.Rand
	clock *clockwork.FakeClock
	t0    time.Time
	bus   *e7Bus
	nodes []*c18node // every incarnation
	slots []*c18node // current incarnation per slot (nil = never started)
	addrs []string
	log   []c18event
	kinds strings.Builder

	pFail          float64     // probability that a Publish call made during the fault phase returns an error
	expiries       []time.Time // instants at which some entry of some node lapses unless refreshed
	unregBeforeReg int
	lastUnreg      map[[2]int]bool // (to endpoint, from endpoint) has seen the Unregister
	aborted        bool
}

func (w *c18world) ms() int64 { return int64(w.clock.Now().Sub(w.t0) / time.Millisecond) }

func (w *c18world) note(what string, n *c18node, detail string) {
	e := c18event{AtMs: w.ms(), What: what, Detail: detail}
	if n != nil {
		e.Node = fmt.Sprintf("%s id=%s", n.addr, n.id)
	}
	w.log = append(w.log, e)
}

// c18RealWait is the generous real-time bound for hand-offs between goroutines; a
// timeout is never a verdict by itself. After the first timeout of a run the
// bound shrinks so that a tree in which nodes never publish does not take hours.
var c18RealWait = 8 * time.Second

// c18ViewWait bounds the wait for `go callback()` goroutines to have run.
var c18ViewWait = 5 * time.Second

func c18Poll(cond func() bool) bool { return c18PollFor(&c18RealWait, cond) }

func c18PollFor(bound *time.Duration, cond func() bool) bool {
	deadline := time.Now().Add(*bound)
	for i := 0; ; i++ {
		if cond() {
			return true
		}
		if time.Now().After(deadline) {
			return false
		}
		switch {
		case i < 2000:
			runtime.Gosched()
		case i < 2200:
			time.Sleep(20 * time.Microsecond)
		default:
			time.Sleep(time.Millisecond)
		}
	}
}

func (w *c18world) start(slot int) {
	n := &c18node{slot: slot, addr: w.addrs[slot], id: w.rng.Hex(8), state: "running", done: make(chan struct{})}
	host := strings.TrimSuffix(strings.TrimPrefix(n.addr, "http://"), ":8081")
	// scripted Publish errors (only effective while the bus has faults on)
	script := make([]bool, 48)
	for k := range script {
		script[k] = w.rng.Chance(w.pFail)
	}
	if w.pFail > 0 && w.rng.Chance(0.3) { // an outage: several refreshes in a row fail
		from, ln := w.rng.Intn(6), w.rng.Range(2, 4)
		for k := 0; k < ln; k++ {
			script[from+k] = true
		}
	}
	n.ep = w.bus.Endpoint(script)
	n.clk = &c18Clock{FakeClock: w.clock}
	switch w.rng.Intn(4) {
	case 0:
		n.clk.jitter = 0
	case 1:
		n.clk.jitter = 0.999999999
	default:
		n.clk.jitter = w.rng.Float64()
	}
	n.host = host
	n.cfg = &config.MockConfig{GetPeerListenAddrVal: "0.0.0.0:8081", RedisIdentifier: host, PeerTimeout: 5 * time.Second}
	n.p = &RedisPubsubPeers{
		Config:     n.cfg,
		Metrics:    &metrics.NullMetrics{},
		Logger:     &logger.NullLogger{},
		PubSub:     n.ep,
		Clock:      n.clk,
		InstanceID: n.id,
		Done:       n.done,
	}
	if err := n.p.Start(); err != nil {
		w.run.Inconclusive("harness: RedisPubsubPeers.Start: " + err.Error())
		w.aborted = true
		return
	}
	if err := c18OntoFakeClock(n.p, w.clock); err != nil {
		w.run.Inconclusive("harness: " + err.Error())
		w.aborted = true
		return
	}
	if got, _ := n.p.GetInstanceID(); got != n.addr {
		w.run.Inconclusive(fmt.Sprintf("harness: node address %q, expected %q", got, n.addr))
		w.aborted = true
		return
	}
	n.p.RegisterUpdatedPeersCallback(func() {
		n.vmu.Lock()
		v, _ := n.p.GetPeers()
		n.view = append([]string(nil), v...)
		n.viewSeen++
		n.vmu.Unlock()
	})
	if err := n.p.Ready(); err != nil {
		w.run.Inconclusive("harness: RedisPubsubPeers.Ready: " + err.Error())
		w.aborted = true
		return
	}
	// the refresh goroutine must have created its tickers before the clock moves again
	n.loopsDue = 1
	if !c18Poll(func() bool { k, l, _ := n.clk.state(); return k >= 2 && l >= 1 }) {
		w.run.Inconclusive("harness: refresh goroutine did not create its tickers")
		w.aborted = true
		return
	}
	w.nodes = append(w.nodes, n)
	w.expiries = append(w.expiries, w.clock.Now().Add(PeerEntryTimeout))
	prev := w.slots[slot]
	w.slots[slot] = n
	if prev == nil {
		w.kinds.WriteByte('S')
		w.note("start", n, "")
	} else {
		w.kinds.WriteByte('R')
		w.note("restart", n, "previous incarnation "+prev.id+" was "+prev.state)
	}
}

// settle waits until every refresh goroutine has published what its ticks (and
// a closed Done) oblige it to publish.
func (w *c18world) settle() {
	now := w.clock.Now()
	for _, n := range w.nodes {
		if n.unsynced || n.manual {
			continue
		}
		if !n.doneClosed && n.clk.goroutineEnded() {
			if !n.goneEarly {
				n.goneEarly = true
				w.note("refresh goroutine ended although Done is open: the node will never register again", n, "")
				w.run.Count("refresh_goroutines_ended_early", 1)
			}
			continue
		}
		if !n.doneClosed {
			refresh, handed := n.clk.fired(now)
			if refresh {
				n.expected++
			}
			n.loopsDue += handed
		}
		want, loops := n.expected, n.loopsDue
		// published AND back in its select: whatever the code does after Publish
		// (e.g. Reset its ticker) has then happened at this instant of the fake clock
		if !c18Poll(func() bool {
			if !n.doneClosed && n.clk.goroutineEnded() {
				return true
			}
			if w.bus.Holding(n.ep.idx) && w.bus.Entered(n.ep.idx) >= want {
				return true // the publication is parked inside a stalled Publish
			}
			_, l, _ := n.clk.state()
			return w.bus.Attempts(n.ep.idx) >= want && (n.doneClosed || l >= loops)
		}) {
			n.unsynced = true
			c18RealWait = 20 * time.Millisecond
			w.note("harness: node did not publish within the real-time bound after its ticker fired / Done closed", n, "")
			w.run.Count("sync_timeouts", 1)
		}
	}
}

// callbacksDone waits until every `go callback()` that checkHash started has
// run, so that no change callback is ever in flight while the clock moves: the
// consumer's view is then determined by the history, not by the Go scheduler.
func (w *c18world) callbacksDone() {
	for _, n := range w.nodes {
		if n.cbLost {
			continue
		}
		due := n.cbDue
		if !c18PollFor(&c18ViewWait, func() bool { n.vmu.Lock(); defer n.vmu.Unlock(); return n.viewSeen >= due }) {
			n.cbLost = true
			c18ViewWait = 20 * time.Millisecond
			w.note("list hash changed but the change callback did not run within the real-time bound", n, "")
			w.run.Count("change_callbacks_not_seen", 1)
		}
	}
}

func (w *c18world) advance(d time.Duration) {
	w.callbacksDone()
	w.clock.Advance(d)
	w.settle()
}

func (w *c18world) closeDone(n *c18node) {
	if n.doneClosed {
		return
	}
	w.resolvable(n) // stop() resolves the address again; a shutdown during the outage is not scripted
	if n.clk.goroutineEnded() {
		n.doneClosed = true
		close(n.done)
		return
	}
	n.doneClosed = true
	n.expected++ // stop() publishes the Unregister
	close(n.done)
	w.settle()
}

// unresolvable makes the inputs of publicAddr (PeerListenAddr, RedisIdentifier,
// IdentifierInterfaceName) yield an error for this node until the fake clock
// reaches `until` -- an interface that is briefly down. The unchanged code
// resolves its address in Start/Ready/stop only.
func (w *c18world) unresolvable(n *c18node, until time.Time, how int) {
	n.cfg.Mux.Lock()
	switch how {
	case 0: // listen address without a port
		n.cfg.GetPeerListenAddrVal = "0.0.0.0"
	default: // identifier taken from an interface that is gone
		n.cfg.RedisIdentifier = ""
		n.cfg.IdentifierInterfaceName = "verif-no-such-if0"
	}
	n.cfg.Mux.Unlock()
	n.addrFault, n.faultUntil = true, until
	w.kinds.WriteByte('A')
	w.note("address-resolution-fails", n, fmt.Sprintf("until t=%dms", int64(until.Sub(w.t0)/time.Millisecond)))
	w.run.Count("address_resolution_outages", 1)
}

func (w *c18world) resolvable(n *c18node) {
	if !n.addrFault {
		return
	}
	n.cfg.Mux.Lock()
	n.cfg.GetPeerListenAddrVal = "0.0.0.0:8081"
	n.cfg.RedisIdentifier = n.host
	n.cfg.IdentifierInterfaceName = ""
	n.cfg.Mux.Unlock()
	n.addrFault = false
	w.note("address-resolution-works-again", n, "")
}

func (w *c18world) graceful(n *c18node) {
	n.state = "stopped"
	w.kinds.WriteByte('G')
	w.note("graceful-stop", n, "")
	w.closeDone(n)
}

func (w *c18world) crash(n *c18node) {
	n.state = "crashed"
	w.kinds.WriteByte('C')
	w.note("crash", n, "")
	w.bus.Silence(n.ep.idx)
}

func (w *c18world) live() []*c18node {
	var out []*c18node
	for _, n := range w.slots {
		if n != nil && n.state == "running" {
			out = append(out, n)
		}
	}
	return out
}

func (w *c18world) witness(extra ...any) map[string]any {
	var nodes []map[string]any
	for _, n := range w.nodes {
		_, _, iv := n.clk.state()
		peers, _ := n.p.GetPeers()
		nodes = append(nodes, map[string]any{"address": n.addr, "instance_id": n.id, "state": n.state, "refresh_interval_ns_now": int64(iv), "GetPeers_now": peers})
	}
	m := map[string]any{
		"events": w.log, "nodes": nodes, "t_ms_now": w.ms(),
		"peer_entry_timeout_ns": int64(PeerEntryTimeout), "max_refresh_interval_ns": int64(c18MaxRefresh),
		"bus": map[string]any{"delivered": w.bus.Delivered, "out_of_order": w.bus.Reordered, "duplicated": w.bus.Duplicated, "swallowed_by_crashes": w.bus.Swallowed},
	}
	for i := 0; i+1 < len(extra); i += 2 {
		m[fmt.Sprint(extra[i])] = extra[i+1]
	}
	return m
}

// compare reports how got differs from the live set; phase is "converge" or "stay-converged".
func (w *c18world) compare(phase string, n *c18node, got []string, source string) bool {
	live := w.live()
	want := make([]string, 0, len(live))
	for _, l := range live {
		want = append(want, l.addr)
	}
	sort.Strings(want)
	g := append([]string(nil), got...)
	sort.Strings(g)
	if strings.Join(g, "\x00") == strings.Join(want, "\x00") {
		return true
	}
	wantSet := map[string]bool{}
	for _, a := range want {
		wantSet[a] = true
	}
	gotCount := map[string]int{}
	for _, a := range g {
		gotCount[a]++
	}
	stateOf := func(addr string) string {
		for s, a := range w.addrs {
			if a == addr {
				if w.slots[s] == nil {
					return "never-started"
				}
				return w.slots[s].state
			}
		}
		return "unknown"
	}
	classes := map[string]bool{}
	for a, k := range gotCount {
		switch {
		case !wantSet[a] && stateOf(a) == "unknown":
			classes["corrupted-address-listed"] = true
		case !wantSet[a]:
			classes[stateOf(a)+"-node-still-listed"] = true
		case k > 1:
			classes["live-address-listed-twice"] = true
		}
	}
	for _, a := range want {
		if gotCount[a] == 0 {
			if a == n.addr {
				classes["own-address-missing"] = true
			} else {
				classes["live-peer-missing"] = true
			}
		}
	}
	for c := range classes {
		w.run.Violation("C18/"+phase+"/"+source+"/"+c,
			fmt.Sprintf("%s of live node %s is %v, live publishing nodes are %v", source, n.addr, g, want),
			w.witness("observer", n.addr, "got", g, "want", want))
	}
	return false
}

func c18membership(run *verifkit.Run, i int, rng *verifkit.Rand) {
	t0 := time.Date(2024, 5, 1, 12, 0, 0, 0, time.UTC)
	w := &c18world{run: run, rng: rng, clock: clockwork.NewFakeClockAt(t0), t0: t0, bus: newE7Bus(), lastUnreg: map[[2]int]bool{}}
	nslots := rng.Range(2, 5)
	w.slots = make([]*c18node, nslots)
	style := rng.Intn(3)
	for s := 0; s < nslots; s++ {
		var h string
		switch style {
		case 0:
			h = fmt.Sprintf("10.0.0.%d", s+1)
		case 1:
			h = fmt.Sprintf("[2600:1f18:2772:d500::%x]", s+1)
		default:
			h = fmt.Sprintf("refinery-%d.refinery", s)
		}
		w.addrs = append(w.addrs, "http://"+h+":8081")
	}
	// Unregister overtaking an earlier Register of the same node, per receiver
	epNode := func(ep int) *c18node {
		for _, n := range w.nodes {
			if n.ep.idx == ep {
				return n
			}
		}
		return nil
	}
	w.bus.AfterDeliver = func(to int, m e7Msg) {
		if n := epNode(to); n != nil {
			if h := c18Hash(n.p); h != n.hashWas {
				n.hashWas = h
				n.cbDue++
			}
		}
	}
	w.bus.OnDeliver = func(to int, m e7Msg, ooo bool) {
		if n := epNode(to); n != nil {
			n.hashWas = c18Hash(n.p)
		}
		k := [2]int{to, m.from}
		if strings.HasPrefix(m.payload, string(Unregister)) {
			w.lastUnreg[k] = true
			return
		}
		w.expiries = append(w.expiries, w.clock.Now().Add(PeerEntryTimeout))
		if w.lastUnreg[k] {
			if s := epNode(m.from); s != nil && s.state != "running" {
				w.unregBeforeReg++
			}
		}
	}
	defer func() {
		// let every refresh goroutine end
		for _, n := range w.nodes {
			w.closeDone(n)
		}
	}()

	// --- fault phase ---------------------------------------------------------------
	w.pFail = verifkit.Pick(rng, 0.0, 0.15, 0.35, 0.6)
	w.bus.SetFaults(true)
	q := verifkit.Pick(rng, 0.15, 0.4, 0.8, 1.0)
	dup := verifkit.Pick(rng, 0.0, 0.1, 0.3)
	held := map[int]int{} // endpoint -> held until step
	first := rng.Range(1, nslots)
	for _, s := range rng.Perm(nslots)[:first] {
		w.start(s)
		if w.aborted {
			return
		}
	}
	steps := rng.Range(12, 45)
	pAddr := verifkit.Pick(rng, 0, 6, 12) // percent per step: address-resolution outage of a live node
	pStart, pStop := 25, 6                // percent per step: (re)start a down slot; graceful stop; crash
	if rng.Chance(0.3) {   // churny cluster
		pStart, pStop = 20, 12
	}
	for st := 0; st < steps && !w.aborted; st++ {
		// membership events
		switch k := rng.Intn(100); {
		case k < pStart:
			s := rng.Intn(nslots)
			if cur := w.slots[s]; cur == nil || cur.state != "running" {
				w.start(s)
			}
		case k < pStart+pStop:
			if l := w.live(); len(l) > 0 {
				w.graceful(l[rng.Intn(len(l))])
			}
		case k < pStart+2*pStop:
			if l := w.live(); len(l) > 0 {
				w.crash(l[rng.Intn(len(l))])
			}
		case k < pStart+2*pStop+8: // hold one node's inbound messages for a while
			if len(w.nodes) > 0 {
				held[w.nodes[rng.Intn(len(w.nodes))].ep.idx] = st + rng.Range(2, 14)
			}
		case k < pStart+2*pStop+8+pAddr: // a node's own address briefly cannot be resolved
			if l := w.live(); len(l) > 0 {
				n := l[rng.Intn(len(l))]
				if next, ok := n.clk.nextRefresh(); ok && !n.addrFault {
					until := next // covers exactly the node's next registration tick
					if rng.Chance(0.25) {
						until = w.clock.Now().Add(time.Duration(rng.Range(100, 8000)) * time.Millisecond)
					}
					if !until.Before(next) {
						w.run.Count("address_resolution_outages_covering_a_refresh_tick", 1)
					}
					w.unresolvable(n, until, rng.Intn(2))
				}
			}
		}
		if w.aborted {
			return
		}
		// time
		d := time.Duration(verifkit.Pick(rng, 100, 250, 500, 999, 1000, 1000)) * time.Millisecond
		if rng.Chance(0.15) { // land on (or 1ns around) an entry's expiry instant
			now := w.clock.Now()
			var near []time.Duration
			keep := w.expiries[:0]
			for _, e := range w.expiries {
				x := e.Sub(now)
				if x > 1 {
					keep = append(keep, e)
					if x <= time.Second {
						near = append(near, x)
					}
				}
			}
			w.expiries = keep
			if len(near) > 0 {
				d = near[rng.Intn(len(near))] + time.Duration(rng.Range(-1, 1))
				w.run.Count("clock_steps_aimed_at_entry_expiry", 1)
			}
		}
		w.advance(d)
		for _, n := range w.nodes {
			if n.addrFault && !w.clock.Now().Before(n.faultUntil) {
				w.resolvable(n)
			}
		}
		// deliveries
		if rng.Chance(0.8) {
			w.bus.DeliverRandom(rng, q, dup, func(ep int) bool { return held[ep] > st })
		}
	}
	if w.aborted {
		return
	}
	live := w.live()
	if len(live) == 0 { // keep at least one observer
		w.start(rng.Intn(nslots))
		if w.aborted {
			return
		}
		live = w.live()
	}

	// --- faults stop -----------------------------------------------------------------
	w.bus.SetFaults(false)
	for _, n := range w.nodes {
		w.resolvable(n)
	}
	w.note("faults-stop", nil, fmt.Sprintf("%d deliveries still queued, %d publish errors injected so far", w.bus.Pending(), w.bus.PublishErrors))
	w.bus.DeliverAll(rng, dup) // the backlog arrives in any order, duplicates included
	end := w.clock.Now().Add(PeerEntryTimeout + c18MaxRefresh)
	for w.clock.Now().Before(end) {
		d := time.Duration(verifkit.Pick(rng, 250, 500, 1000)) * time.Millisecond
		if rem := end.Sub(w.clock.Now()); d > rem {
			d = rem
		}
		w.advance(d)
		w.bus.DeliverAll(nil, 0)
	}
	w.note("bound-reached", nil, "PeerEntryTimeout + max refresh interval after the faults stopped")
	unsynced := false
	for _, n := range w.nodes {
		unsynced = unsynced || n.unsynced
	}
	ok := true
	for _, n := range live {
		got, err := n.p.GetPeers()
		if err != nil {
			run.Inconclusive("harness: GetPeers: " + err.Error())
			return
		}
		ok = w.compare("converge", n, got, "GetPeers") && ok
		run.Count("getpeers_checked", 1)
	}
	// --- and it stays that way; the change-callback consumer catches up -----------
	// long enough to see a node flap whose refresh period has grown beyond the entry timeout
	end = w.clock.Now().Add(2 * (PeerEntryTimeout + c18MaxRefresh))
	for ok && w.clock.Now().Before(end) {
		d := time.Duration(verifkit.Pick(rng, 300, 700, 1000)) * time.Millisecond
		if rem := end.Sub(w.clock.Now()); d > rem {
			d = rem
		}
		w.advance(d)
		w.bus.DeliverAll(nil, 0)
		for _, n := range live {
			got, _ := n.p.GetPeers()
			ok = w.compare("stay-converged", n, got, "GetPeers") && ok
			run.Count("getpeers_checked", 1)
		}
	}
	if ok {
		w.callbacksDone()
		for _, n := range live {
			want := make([]string, 0, len(live))
			for _, l := range live {
				want = append(want, l.addr)
			}
			sort.Strings(want)
			same := func() bool {
				n.vmu.Lock()
				v := append([]string(nil), n.view...)
				n.vmu.Unlock()
				sort.Strings(v)
				return strings.Join(v, "\x00") == strings.Join(want, "\x00")
			}
			if !same() { // every started callback has run (callbacksDone), so this is final
				n.vmu.Lock()
				v := append([]string(nil), n.view...)
				n.vmu.Unlock()
				ok = w.compare("stay-converged", n, v, "list-read-by-change-callback") && ok
			}
			run.Count("callback_views_checked", 1)
		}
	}
	if ok && unsynced {
		run.Inconclusive("a node's refresh goroutine did not publish within the real-time bound; history not as scripted")
	}

	run.Count("messages_delivered", int64(w.bus.Delivered))
	run.Count("messages_out_of_order", int64(w.bus.Reordered))
	run.Count("messages_duplicated", int64(w.bus.Duplicated))
	run.Count("publish_errors_injected", int64(w.bus.PublishErrors))
	run.Count("register_after_unregister_of_gone_node", int64(w.unregBeforeReg))
	run.Count("node_incarnations", int64(len(w.nodes)))
	ks := w.kinds.String()
	if (strings.ContainsAny(ks, "GC")) && w.bus.Reordered > 0 && len(live) >= 1 {
		b := func(n int) string {
			switch {
			case n == 0:
				return "0"
			case n < 10:
				return "few"
			default:
				return "many"
			}
		}
		run.Nontrivial(fmt.Sprintf("%s live=%d ooo=%s dup=%s late-register=%s", ks, len(live), b(w.bus.Reordered), b(w.bus.Duplicated), b(w.unregBeforeReg)))
	}
	if i < 2 {
		run.Sample(map[string]any{"events": w.log, "addresses": w.addrs, "delivered": w.bus.Delivered, "out_of_order": w.bus.Reordered, "duplicated": w.bus.Duplicated})
	}
}

// ---- family: one crash at a PRNG-chosen phase of an otherwise calm cluster -------------

// c18crashPhase: 2..4 nodes started at staggered instants register without any
// other fault and with immediate in-order delivery; one node crashes (silence,
// no Unregister) at a millisecond-grained instant C, the others keep
// re-registering. Membership has stopped changing at C and every registration
// the crashed node published was delivered by then, so from C + PeerEntryTimeout
// + one (largest) refresh interval on -- the bound the property names; the
// unchanged code drops the entry at the first read later than last registration
// + PeerEntryTimeout -- no live node may list it. The clock moves in 50..300 ms
// steps and GetPeers() is read only from the bound on (before it only the
// nodes' own messages touch the TTL map, as in production).
func c18crashPhase(run *verifkit.Run, i int, rng *verifkit.Rand) {
	t0 := time.Date(2024, 5, 1, 12, 0, 0, 0, time.UTC)
	w := &c18world{run: run, rng: rng, clock: clockwork.NewFakeClockAt(t0), t0: t0, bus: newE7Bus(), lastUnreg: map[[2]int]bool{}}
	nslots := rng.Range(2, 4)
	w.slots = make([]*c18node, nslots)
	for s := 0; s < nslots; s++ {
		w.addrs = append(w.addrs, fmt.Sprintf("http://node-%c.refinery:8081", 'a'+s))
	}
	defer func() {
		for _, n := range w.nodes {
			w.closeDone(n)
		}
	}()
	step := func(d time.Duration) {
		w.advance(d)
		w.bus.DeliverAll(nil, 0)
	}
	for s := 0; s < nslots; s++ {
		w.start(s)
		if w.aborted {
			return
		}
		step(time.Duration(rng.Range(1, 3500)) * time.Millisecond) // staggered phases
	}
	// calm operation
	for calm := time.Duration(rng.Range(6000, 25000)) * time.Millisecond; calm > 0; {
		d := time.Duration(rng.Range(50, 500)) * time.Millisecond
		step(d)
		calm -= d
	}
	rounds := 1
	if nslots >= 3 && rng.Chance(0.3) {
		rounds = 2
	}
	ok := true
	for r := 0; r < rounds && ok && !w.aborted; r++ {
		step(time.Duration(rng.Range(1, 999)) * time.Millisecond)
		live := w.live()
		victim := live[rng.Intn(len(live))]
		w.crash(victim)
		crashAt := w.clock.Now()
		bound := crashAt.Add(PeerEntryTimeout + c18MaxRefresh)
		end := crashAt.Add(2 * (PeerEntryTimeout + c18MaxRefresh))
		for w.clock.Now().Before(end) && ok {
			d := time.Duration(rng.Range(50, 300)) * time.Millisecond
			if now := w.clock.Now(); now.Before(bound) && now.Add(d).After(bound) {
				d = bound.Sub(now) // land exactly on the bound once
			}
			step(d)
			if w.clock.Now().Before(bound) {
				continue
			}
			for _, n := range w.live() {
				got, err := n.p.GetPeers()
				if err != nil {
					run.Inconclusive("harness: GetPeers: " + err.Error())
					return
				}
				ok = w.compare("crash-phase", n, got, "GetPeers") && ok
				run.Count("getpeers_checked_after_crash_bound", 1)
			}
		}
	}
	for _, n := range w.nodes {
		if n.unsynced && ok {
			run.Inconclusive("a node's refresh goroutine did not publish within the real-time bound; history not as scripted")
		}
	}
	run.Count("crash_phase_cases", 1)
	if len(w.live()) >= 1 {
		// abstract: number of nodes, rounds, and the crash instant's phase within the victim-independent second
		run.Nontrivial(fmt.Sprintf("crash-phase n=%d rounds=%d phase=%d", nslots, rounds, (w.ms()/250)%16))
	}
	if i < 1 {
		run.Sample(map[string]any{"family": "crash-phase", "events": w.log, "addresses": w.addrs})
	}
}

// ---- family: graceful stop while a registration is stuck in a slow Publish ------------

// c18slowPublishStop: a calm cluster with immediate in-order delivery. The
// victim's next periodic Register parks inside PubSub.Publish (a stalled Redis
// PUBLISH, at most PeerTimeout long); while it is parked the node is stopped
// gracefully (Done closed at instant S). After h <= PeerTimeout of virtual time
// the publish is released, everything the victim published is delivered in the
// order it reached the bus. Membership stopped changing at S, so from
// S + PeerEntryTimeout + one (largest) refresh interval on no live node may list
// the stopped node. (Unchanged code: the loop goroutine is the node's only
// publisher, so its Unregister follows the released Register and removes the
// entry at S+h.)
func c18slowPublishStop(run *verifkit.Run, i int, rng *verifkit.Rand) {
	t0 := time.Date(2024, 5, 1, 12, 0, 0, 0, time.UTC)
	w := &c18world{run: run, rng: rng, clock: clockwork.NewFakeClockAt(t0), t0: t0, bus: newE7Bus(), lastUnreg: map[[2]int]bool{}}
	nslots := rng.Range(2, 4)
	w.slots = make([]*c18node, nslots)
	for s := 0; s < nslots; s++ {
		w.addrs = append(w.addrs, fmt.Sprintf("http://node-%c.refinery:8081", 'a'+s))
	}
	defer func() {
		for _, n := range w.nodes {
			w.bus.Release(n.ep.idx)
			w.closeDone(n)
		}
	}()
	step := func(d time.Duration) {
		w.advance(d)
		w.bus.DeliverAll(nil, 0)
	}
	for s := 0; s < nslots; s++ {
		w.start(s)
		if w.aborted {
			return
		}
		step(time.Duration(rng.Range(1, 3500)) * time.Millisecond)
	}
	for calm := time.Duration(rng.Range(4000, 12000)) * time.Millisecond; calm > 0; {
		d := time.Duration(rng.Range(50, 500)) * time.Millisecond
		step(d)
		calm -= d
	}
	live := w.live()
	victim := live[rng.Intn(len(live))]
	ep := victim.ep.idx
	peerTimeout := victim.cfg.GetPeerTimeout()
	// 1. the victim's next registration stalls
	w.bus.HoldNext(ep)
	w.note("next-publish-of-node-will-stall", victim, "")
	for k := 0; !w.bus.Holding(ep); k++ {
		if k > 200 || w.aborted {
			run.Inconclusive("harness: the victim never reached its next registration publish")
			return
		}
		step(time.Duration(rng.Range(50, 400)) * time.Millisecond)
	}
	// 2. ... and while it hangs the node is stopped gracefully, somewhat later
	if rng.Bool() {
		step(time.Duration(rng.Range(1, 800)) * time.Millisecond)
	}
	before := w.bus.Attempts(ep)
	victim.manual = true
	victim.doneClosed = true
	victim.state = "stopped"
	close(victim.done)
	stopAt := w.clock.Now()
	w.kinds.WriteByte('G')
	w.note("graceful-stop-while-registration-publish-is-stalled", victim, "")
	// 3. the publish stays stalled for h <= PeerTimeout (the context deadline Refinery gives it)
	h := time.Duration(rng.Range(200, int(peerTimeout/time.Millisecond))) * time.Millisecond
	if rng.Bool() {
		h = peerTimeout - time.Duration(rng.Range(0, 1200))*time.Millisecond
	}
	for w.clock.Now().Before(stopAt.Add(h)) {
		d := time.Duration(rng.Range(50, 400)) * time.Millisecond
		if rem := stopAt.Add(h).Sub(w.clock.Now()); d > rem {
			d = rem
		}
		step(d)
	}
	// 4. the stalled publish completes; the stopping node finishes (Register and Unregister both on the bus)
	w.bus.Release(ep)
	w.note("stalled-publish-released", victim, fmt.Sprintf("%v after the stop", h))
	if !c18Poll(func() bool { return w.bus.Attempts(ep) >= before+2 && victim.clk.goroutineEnded() }) {
		run.Inconclusive("harness: the stopping node did not finish its Register and Unregister within the real-time bound")
		return
	}
	w.bus.DeliverAll(nil, 0)
	// 5. within the bound counted from the stop nobody lists it any more
	bound := stopAt.Add(PeerEntryTimeout + c18MaxRefresh)
	end := stopAt.Add(2 * (PeerEntryTimeout + c18MaxRefresh))
	ok := true
	for w.clock.Now().Before(end) && ok {
		d := time.Duration(rng.Range(50, 300)) * time.Millisecond
		if now := w.clock.Now(); now.Before(bound) && now.Add(d).After(bound) {
			d = bound.Sub(now)
		}
		step(d)
		if w.clock.Now().Before(bound) {
			continue
		}
		for _, n := range w.live() {
			got, err := n.p.GetPeers()
			if err != nil {
				run.Inconclusive("harness: GetPeers: " + err.Error())
				return
			}
			ok = w.compare("slow-publish-stop", n, got, "GetPeers") && ok
			run.Count("getpeers_checked_after_slow_publish_stop", 1)
		}
	}
	for _, n := range w.nodes {
		if n.unsynced && ok {
			run.Inconclusive("a node's refresh goroutine did not publish within the real-time bound; history not as scripted")
		}
	}
	run.Count("slow_publish_stop_cases", 1)
	run.Nontrivial(fmt.Sprintf("slow-publish-stop n=%d stall=%ds", nslots, int(h/time.Second)))
	if i < 1 {
		run.Sample(map[string]any{"family": "slow-publish-stop", "events": w.log, "addresses": w.addrs})
	}
}

// ---- codec ---------------------------------------------------------------------------

func c18String(rng *verifkit.Rand, kind string) string {
	alphabet := []string{",", ",", "R", "U", ":", "/", ".", "-", "a", "b", "0", "9", "[", "]", "%", " ", "\n", "\x00", "é", "日", "\xff", "|", "="}
	switch rng.Intn(9) {
	case 0:
		return ""
	case 1, 2, 3: // realistic
		if kind == "id" {
			return rng.Hex(8)
		}
		host := verifkit.Pick(rng, "10.1.2.3", "refinery-0.refinery.svc.cluster.local", "[2600:1f18:2772:d500:a772:1d0e:8ef5:93de]", "localhost", "REFINERY")
		return verifkit.Pick(rng, "http", "https") + "://" + host + ":" + verifkit.Pick(rng, "8081", "443", "65535")
	case 4: // realistic with one hostile character spliced in
		base := "http://refinery-1:8081"
		if kind == "id" {
			base = rng.Hex(8)
		}
		p := rng.Intn(len(base) + 1)
		return base[:p] + alphabet[rng.Intn(len(alphabet))] + base[p:]
	case 5:
		return strings.Repeat(verifkit.Pick(rng, "a", ",", "R,", "ab"), rng.Range(1, 300))
	default:
		var b strings.Builder
		for k := rng.Range(1, 12); k > 0; k-- {
			b.WriteString(alphabet[rng.Intn(len(alphabet))])
		}
		return b.String()
	}
}

func c18short(s string) string {
	if len(s) > 48 {
		return fmt.Sprintf("%q...(%d bytes)", s[:48], len(s))
	}
	return fmt.Sprintf("%q", s)
}

func c18codec(run *verifkit.Run, i int, rng *verifkit.Rand) {
	action := verifkit.Pick(rng, Register, Unregister)
	addr := c18String(rng, "address")
	id := c18String(rng, "id")
	if i == 0 { // one fixed, readable boundary case first: a free-form Identifier with a comma, a generated hex id
		addr, id = "http://refinery,eu-1:8081", rng.Hex(8)
	}
	msg := c18Encode(action, addr, id)
	ok, a2, addr2, id2, panicked := c18Decode(msg)
	run.Count("codec_roundtrips", 1)
	if strings.Contains(addr, ",") || strings.Contains(id, ",") {
		run.Nontrivial(fmt.Sprintf("comma addr=%v id=%v", strings.Contains(addr, ","), strings.Contains(id, ",")))
	} else if addr == "" || id == "" {
		run.Nontrivial(fmt.Sprintf("empty addr=%v id=%v", addr == "", id == ""))
	}
	class := "other-strings"
	switch {
	case strings.Contains(addr, ","):
		class = "address-contains-comma"
	case strings.Contains(id, ","):
		class = "id-contains-comma"
	case addr == "" || id == "":
		class = "empty-field"
	}
	wit := map[string]any{"action": string(action), "address": fmt.Sprintf("%q", addr), "id": fmt.Sprintf("%q", id), "wire": fmt.Sprintf("%q", msg),
		"decoded_action": string(a2), "decoded_address": fmt.Sprintf("%q", addr2), "decoded_id": fmt.Sprintf("%q", id2)}
	if panicked != nil {
		wit["panic"] = fmt.Sprint(panicked)
		run.Violation("C18/codec/decoder-panics/"+class, fmt.Sprintf("unmarshal panics on %s, the encoding of (%s, %s, %s): %v", c18short(msg), action, c18short(addr), c18short(id), panicked), wit)
		return
	}
	if !ok {
		run.Violation("C18/codec/own-encoding-rejected/"+class, fmt.Sprintf("unmarshal rejects %s, the encoding of (%s, %s, %s)", c18short(msg), action, c18short(addr), c18short(id)), wit)
		return
	}
	if a2 != action || addr2 != addr || id2 != id {
		run.Violation("C18/codec/"+class,
			fmt.Sprintf("(%s, address %s, id %s) is sent as %s and decoded as (%s, address %s, id %s)", action, c18short(addr), c18short(id), c18short(msg), a2, c18short(addr2), c18short(id2)), wit)
	}
	if i < 1 {
		run.Sample(wit)
	}
}

func TestVerif_C18(t *testing.T) {
	run := verifkit.Start(t, "C18", "membership")
	defer run.Finish()
	run.Rule("membership: seeded histories over 2..5 node addresses (IPv4 / bracketed IPv6 / host names) of real RedisPubsubPeers on one FakeClock over the E7 chaos pubsub: 12..45 steps of {start, graceful stop, crash, restart under a new instance id, hold a node's inbound messages}, address-resolution outages of a live node (its config yields an unparsable listen address / a missing interface) covering its next registration tick, per-node scripted Publish errors (probability 0/0.15/0.35/0.6 per call, plus outages of 2-4 consecutive calls) while faults are on, clock steps of 0.1..1 s (15% aimed at an entry's expiry instant +-1ns), per-step delivery of a random subset of the queued messages in random order with duplicates; refresh jitter per node chosen by the PRNG in [0,20%); then faults stop, backlog delivered in random order, clock advanced PeerEntryTimeout+max refresh interval with immediate delivery, GetPeers() of every live node compared with the live set, again at every step of a further 2x(PeerEntryTimeout+max refresh interval), then the list read by a change-callback consumer. Non-trivial = history with a graceful stop or crash and at least one out-of-order delivery; distinct = (event-kind sequence, live count, out-of-order/duplicate/late-register buckets). crash-phase: 2..4 nodes started at staggered instants, calm operation with immediate delivery, one node (in 30% two in sequence) crashed at a ms-grained instant C, clock stepped 50..300 ms, from C+PeerEntryTimeout+max refresh interval to twice that GetPeers() of every live node compared with the live set at every step. slow-publish-stop: calm cluster, the victim's next Register parks inside Publish, the node is stopped gracefully while it is parked, released 0.2..PeerTimeout later, everything delivered in bus order, GetPeers() of every live node compared with the live set at every step from stop+PeerEntryTimeout+max refresh interval to twice that. codec: marshal->unmarshal over generated address/id strings (realistic URLs and hex ids, empty, commas, leading R/U, control bytes, non-UTF8, long); non-trivial = a field is empty or contains a comma")
	run.Assume("the go-redis transport is replaced by the E7 chaos pubsub (no Redis server in the sandbox); deliveries to one node are serialised")
	run.Assume("clockwork.FakeClock is the only time source: the node's TTL map is moved onto it right after Start and the own entry re-stamped; the refresh jitter comes from the check's PRNG instead of math/rand")
	run.Assume("live and publishing = started, Done not closed, not silenced; convergence is measured from the moment faults stop and the backlog has been delivered")

	run.Cases("membership", run.N(300, 60000), func(i int, rng *verifkit.Rand) { c18membership(run, i, rng) })
	run.Cases("slow-publish-stop", run.N(120, 10000), func(i int, rng *verifkit.Rand) { c18slowPublishStop(run, i, rng) })
	run.Cases("crash-phase", run.N(200, 15000), func(i int, rng *verifkit.Rand) { c18crashPhase(run, i, rng) })
	run.Cases("codec", run.N(4000, 400000), func(i int, rng *verifkit.Rand) { c18codec(run, i, rng) })
}
