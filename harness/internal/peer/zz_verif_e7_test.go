//go:build verif

package peer

import (
	"context"
	"errors"
	"sort"
	"sync"

	"github.com/honeycombio/refinery/internal/verifkit"
	"github.com/honeycombio/refinery/pubsub"
)

// Engine E7: chaos pubsub.
//
// One e7Bus is shared by several in-process nodes; each node talks to it
// through its own e7Endpoint (a pubsub.PubSub). Publishing only queues the
// message at every subscriber of the topic (the publisher included, as Redis
// does). Nothing is delivered until the driver says so, and the driver chooses
// -- from its seeded PRNG -- which queued message goes next (reordering,
// arbitrary delay), whether a delivered message stays queued to be delivered
// again (duplication), and which endpoints are silenced (a crashed node: its
// publications vanish and nothing is delivered to it any more).
//
// Determinism: Publish is called from the nodes' own goroutines, so it never
// draws from the PRNG and queue order is never used; the driver picks among the
// queued messages in the canonical order (sender endpoint, per-sender sequence
// number, copy number), which does not depend on goroutine scheduling.
// Callbacks run synchronously on the driver's goroutine.

type e7Msg struct {
	from    int // sender endpoint
	seq     int // per-sender sequence number
	copy    int // 0 = original, >0 = duplicate
	payload string
}

type e7Sub struct {
	bus     *e7Bus
	ep      int
	topic   string
	cb      pubsub.SubscriptionCallback
	pending []e7Msg
	closed  bool
	// highest seq delivered so far per sender, to measure reordering
	maxSeq map[int]int
}

func (s *e7Sub) Close() {
	s.bus.mu.Lock()
	s.closed = true
	s.pending = nil
	s.bus.mu.Unlock()
}

type e7Bus struct {
	mu       sync.Mutex
	subs     []*e7Sub
	attempts []int  // Publish calls per endpoint (also counted when silenced)
	seqs     []int  // messages actually queued per endpoint
	silenced []bool // crashed endpoints
	// Slow publish: HoldNext(ep) makes the next Publish call of endpoint ep park
	// inside Publish (a stalled Redis PUBLISH) until Release(ep); the message is
	// queued -- and gets its sequence number -- only when it is released.
	holdArmed []bool
	holding   []chan struct{}
	entered   []int // Publish calls that have started, per endpoint
	// Publish errors (a Redis outage as seen by the publisher): while FaultsOn,
	// the k-th Publish call of endpoint ep fails -- returns an error, queues
	// nothing -- iff failScript[ep][k]. The script is drawn by the driver when the
	// endpoint is created, so the publishing goroutines never touch the PRNG.
	FaultsOn      bool
	failScript    [][]bool
	PublishErrors int
	// measured
	Delivered, Reordered, Duplicated, Swallowed int
	// OnDeliver, if set, is told about every delivery before the callback runs.
	OnDeliver func(toEp int, m e7Msg, outOfOrder bool)
	// AfterDeliver, if set, is called when the subscriber's callback has returned.
	AfterDeliver func(toEp int, m e7Msg)
}

func newE7Bus() *e7Bus { return &e7Bus{} }

// SetFaults switches the scripted Publish errors on or off.
func (b *e7Bus) SetFaults(on bool) {
	b.mu.Lock()
	b.FaultsOn = on
	b.mu.Unlock()
}

// Endpoint creates the pubsub handle of a new node; failScript[k] says whether
// its k-th Publish call fails while faults are on (nil = never).
func (b *e7Bus) Endpoint(failScript []bool) *e7Endpoint {
	b.mu.Lock()
	defer b.mu.Unlock()
	b.failScript = append(b.failScript, failScript)
	b.holdArmed = append(b.holdArmed, false)
	b.holding = append(b.holding, nil)
	b.entered = append(b.entered, 0)
	b.attempts = append(b.attempts, 0)
	b.seqs = append(b.seqs, 0)
	b.silenced = append(b.silenced, false)
	return &e7Endpoint{bus: b, idx: len(b.attempts) - 1}
}

// HoldNext arms the stall for endpoint ep's next Publish call.
func (b *e7Bus) HoldNext(ep int) {
	b.mu.Lock()
	b.holdArmed[ep] = true
	b.mu.Unlock()
}

// Holding reports whether a Publish call of endpoint ep is parked right now.
func (b *e7Bus) Holding(ep int) bool {
	b.mu.Lock()
	defer b.mu.Unlock()
	return b.holding[ep] != nil
}

// Entered is the number of Publish calls endpoint ep has started.
func (b *e7Bus) Entered(ep int) int {
	b.mu.Lock()
	defer b.mu.Unlock()
	return b.entered[ep]
}

// Release lets the parked Publish call of endpoint ep go on (no-op if none);
// it also disarms a stall that was never reached.
func (b *e7Bus) Release(ep int) {
	b.mu.Lock()
	ch := b.holding[ep]
	b.holding[ep] = nil
	b.holdArmed[ep] = false
	b.mu.Unlock()
	if ch != nil {
		close(ch)
	}
}

// Attempts is the number of Publish calls endpoint ep has made.
func (b *e7Bus) Attempts(ep int) int {
	b.mu.Lock()
	defer b.mu.Unlock()
	return b.attempts[ep]
}

// Silence makes endpoint ep a crashed node: what it publishes from now on
// vanishes and nothing is delivered to it any more. Messages it published
// before stay queued at the other nodes.
func (b *e7Bus) Silence(ep int) {
	b.mu.Lock()
	defer b.mu.Unlock()
	b.silenced[ep] = true
	for _, s := range b.subs {
		if s.ep == ep {
			b.Swallowed += len(s.pending)
			s.pending = nil
		}
	}
}

// Pending is the number of queued deliveries.
func (b *e7Bus) Pending() int {
	b.mu.Lock()
	defer b.mu.Unlock()
	n := 0
	for _, s := range b.subs {
		n += len(s.pending)
	}
	return n
}

type e7Pick struct {
	sub *e7Sub
	msg e7Msg
}

// candidates lists every queued delivery in canonical order. Caller holds mu.
func (b *e7Bus) candidates(only func(ep int) bool) []e7Pick {
	var out []e7Pick
	for _, s := range b.subs {
		if s.closed || b.silenced[s.ep] || (only != nil && !only(s.ep)) {
			continue
		}
		sort.Slice(s.pending, func(i, j int) bool {
			a, c := s.pending[i], s.pending[j]
			if a.from != c.from {
				return a.from < c.from
			}
			if a.seq != c.seq {
				return a.seq < c.seq
			}
			return a.copy < c.copy
		})
		for _, m := range s.pending {
			out = append(out, e7Pick{s, m})
		}
	}
	return out
}

func (b *e7Bus) remove(s *e7Sub, m e7Msg) {
	for i, x := range s.pending {
		if x.from == m.from && x.seq == m.seq && x.copy == m.copy {
			s.pending = append(s.pending[:i], s.pending[i+1:]...)
			return
		}
	}
}

// deliver hands one queued message to its subscriber; with probability dup a
// copy stays queued.
func (b *e7Bus) deliver(p e7Pick, rng *verifkit.Rand, dup float64) {
	b.mu.Lock()
	b.remove(p.sub, p.msg)
	if dup > 0 && p.msg.copy < 2 && rng.Chance(dup) {
		c := p.msg
		c.copy++
		p.sub.pending = append(p.sub.pending, c)
		b.Duplicated++
	}
	if p.sub.maxSeq == nil {
		p.sub.maxSeq = map[int]int{}
	}
	ooo := false
	if hi, ok := p.sub.maxSeq[p.msg.from]; ok && p.msg.seq < hi {
		ooo = true
		b.Reordered++
	} else {
		p.sub.maxSeq[p.msg.from] = p.msg.seq
	}
	b.Delivered++
	cb, on, after := p.sub.cb, b.OnDeliver, b.AfterDeliver
	b.mu.Unlock()
	if on != nil {
		on(p.sub.ep, p.msg, ooo)
	}
	cb(context.Background(), p.msg.payload)
	if after != nil {
		after(p.sub.ep, p.msg)
	}
}

// DeliverRandom delivers each currently queued message with probability q, in
// a PRNG-chosen order; endpoints for which held returns true get nothing.
func (b *e7Bus) DeliverRandom(rng *verifkit.Rand, q, dup float64, held func(ep int) bool) {
	b.mu.Lock()
	c := b.candidates(func(ep int) bool { return held == nil || !held(ep) })
	b.mu.Unlock()
	var chosen []e7Pick
	for _, p := range c {
		if rng.Chance(q) {
			chosen = append(chosen, p)
		}
	}
	verifkit.Shuffle(rng, chosen)
	for _, p := range chosen {
		b.deliver(p, rng, dup)
	}
}

// DeliverAll drains every queue; shuffled (with duplicates) when rng is given,
// otherwise in publication order per sender.
func (b *e7Bus) DeliverAll(rng *verifkit.Rand, dup float64) {
	for round := 0; round < 8; round++ {
		b.mu.Lock()
		c := b.candidates(nil)
		b.mu.Unlock()
		if len(c) == 0 {
			return
		}
		if rng != nil {
			verifkit.Shuffle(rng, c)
		} else {
			sort.SliceStable(c, func(i, j int) bool { return c[i].msg.seq < c[j].msg.seq })
		}
		for _, p := range c {
			if rng != nil {
				b.deliver(p, rng, dup)
			} else {
				b.deliver(p, nil, 0)
			}
		}
	}
}

// ---- the per-node handle ---------------------------------------------------------

type e7Endpoint struct {
	bus *e7Bus
	idx int
}

var _ pubsub.PubSub = (*e7Endpoint)(nil)

func (e *e7Endpoint) Publish(ctx context.Context, topic, message string) error {
	b := e.bus
	b.mu.Lock()
	b.entered[e.idx]++
	if b.holdArmed[e.idx] {
		b.holdArmed[e.idx] = false
		ch := make(chan struct{})
		b.holding[e.idx] = ch
		b.mu.Unlock()
		<-ch // a stalled PUBLISH; the driver releases it
		b.mu.Lock()
	}
	defer b.mu.Unlock()
	if k := b.attempts[e.idx]; b.FaultsOn && !b.silenced[e.idx] && k < len(b.failScript[e.idx]) && b.failScript[e.idx][k] {
		b.PublishErrors++
		b.attempts[e.idx]++
		return errors.New("e7: injected publish error (redis unavailable)")
	}
	if !b.silenced[e.idx] {
		seq := b.seqs[e.idx]
		b.seqs[e.idx]++
		for _, s := range b.subs {
			if s.topic == topic && !s.closed && !b.silenced[s.ep] {
				s.pending = append(s.pending, e7Msg{from: e.idx, seq: seq, payload: message})
			}
		}
	}
	b.attempts[e.idx]++ // last: whoever sees the count also sees the queued message
	return nil
}

func (e *e7Endpoint) Subscribe(ctx context.Context, topic string, cb pubsub.SubscriptionCallback) pubsub.Subscription {
	b := e.bus
	b.mu.Lock()
	defer b.mu.Unlock()
	s := &e7Sub{bus: b, ep: e.idx, topic: topic, cb: cb}
	b.subs = append(b.subs, s)
	return s
}

func (e *e7Endpoint) FormatTopic(topic string) string { return "e7:" + topic }
func (e *e7Endpoint) Close()                          {}
func (e *e7Endpoint) Start() error                    { return nil }
func (e *e7Endpoint) Stop() error                     { return nil }
