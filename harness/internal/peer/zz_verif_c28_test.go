//go:build verif

package peer

import (
	"context"
	"encoding/json"
	"fmt"
	"os"
	"path/filepath"
	"runtime"
	"strings"
	"sync/atomic"
	"testing"
	"time"

	"github.com/jonboulle/clockwork"

	"github.com/honeycombio/refinery/config"
	"github.com/honeycombio/refinery/internal/verifkit"
	"github.com/honeycombio/refinery/logger"
	"github.com/honeycombio/refinery/metrics"
	"github.com/honeycombio/refinery/pubsub"
)

// C28, unit "pubsub": arbitrary traffic on the peers pubsub topic never kills
// or hangs a node.
//
// Engine E8: the parent generates hostile raw messages; a child process hosts
// two real RedisPubsubPeers over the real pubsub.LocalPubSub (which, like
// GoRedisPubSub, runs every subscriber callback as `go cb(ctx, msg)` with no
// recover) and publishes them one by one between valid registrations, writing
// each to a write-ahead log first. A child that dies (panic in a listener
// goroutine) or hangs names its last logged message as the witness.

// ---- adapters (only place that touches unexported identifiers) -------------

func c28pValid(action peerAction, addr, id string) string {
	return newPeerCommand(action, addr, id).marshal()
}

func c28pFreezeClock(p *RedisPubsubPeers, c clockwork.Clock) error {
	p.peers.Clock = c // Start builds the TTL map on the real clock; entries must not lapse during a batch
	addr, err := publicAddr(p.Logger, p.Config)
	if err != nil {
		return err
	}
	p.peers.Set(p.InstanceID, addr)
	return nil
}

// ---- a counting shim around the real LocalPubSub --------------------------------

// c28pPubSub delegates everything to the real LocalPubSub; it only wraps the
// subscriber callback so that the child knows when a message has been handled.
// The wrapped callback still runs in LocalPubSub's own `go cb()` goroutine and
// recovers nothing.
type c28pPubSub struct {
	*pubsub.LocalPubSub
	handled *atomic.Int64
	subs    *atomic.Int64
}

func (p c28pPubSub) Subscribe(ctx context.Context, topic string, cb pubsub.SubscriptionCallback) pubsub.Subscription {
	p.subs.Add(1)
	return p.LocalPubSub.Subscribe(ctx, topic, func(ctx context.Context, msg string) {
		cb(ctx, msg)
		p.handled.Add(1)
	})
}

// ---- inputs ------------------------------------------------------------------------

type c28pInput struct {
	Index int    `json:"i"`
	Kind  string `json:"k"`
	Msg   []byte `json:"m"` // raw bytes (base64 in JSON): may be non-UTF-8
}

const c28pGood = "Rhttp://refinery-7.refinery:8081,0a1b2c3d"

func c28pBytes(rng *verifkit.Rand, n int) string {
	b := make([]byte, n)
	for i := range b {
		b[i] = byte(rng.Intn(256))
	}
	return string(b)
}

func c28pMessage(i int, rng *verifkit.Rand) (kind, msg string) {
	odd := func() string {
		return verifkit.Pick(rng, "", ",", "http://a,b:1", "http://[::1]:8081", "\x00", "http://h:8081\x00", "é日本", "\xff\xfe", " ", "\n", "R", "U", strings.Repeat("a", rng.Range(1, 300)), c28pBytes(rng, rng.Range(1, 12)))
	}
	switch k := rng.Intn(22); k {
	case 0:
		return "empty", ""
	case 1:
		return "one-byte", verifkit.Pick(rng, "R", "U", ",", "\x00", "x", "\xff")
	case 2:
		return "only-commas", strings.Repeat(",", rng.Range(1, 40))
	case 3:
		return "leading-comma", "," + verifkit.Pick(rng, "x", "", ",", "R", "Rhttp://a:1,id", c28pBytes(rng, rng.Range(1, 8)))
	case 4:
		return "no-comma", verifkit.Pick(rng, "R", "U", "X") + verifkit.Pick(rng, "http://refinery-1:8081", "abc", "", c28pBytes(rng, 6))
	case 5:
		return "unknown-action", string([]byte{byte(rng.Intn(256))}) + "http://refinery-1:8081," + rng.Hex(8)
	case 6, 7: // a valid message cut at every position (swept by index)
		cut := i % (len(c28pGood) + 1)
		return "valid-prefix", c28pGood[:cut]
	case 8: // ... and a valid suffix
		cut := i % (len(c28pGood) + 1)
		return "valid-suffix", c28pGood[cut:]
	case 9:
		if rng.Chance(0.03) {
			return "huge", verifkit.Pick(rng, "R", ",", "x") + strings.Repeat(verifkit.Pick(rng, "a", ",", "\x00"), 1<<20)
		}
		return "long", verifkit.Pick(rng, "R", "U", ",", "") + strings.Repeat(verifkit.Pick(rng, "ab", ",", "R,", "\xff"), rng.Range(100, 5000))
	case 10:
		return "non-utf8", c28pBytes(rng, rng.Range(2, 64))
	case 11:
		return "nul", verifkit.Pick(rng, "R\x00,\x00", "\x00\x00", "R,\x00", "U\x00\x00\x00,", "\x00,id", "R\x00")
	case 12, 13:
		return "valid-odd-fields", c28pValid(verifkit.Pick(rng, Register, Unregister), odd(), odd())
	case 14:
		return "comma-second", verifkit.Pick(rng, "R", "U", "x", "\x00") + "," + verifkit.Pick(rng, "", "id", ",", c28pBytes(rng, 4))
	case 15:
		return "comma-last", verifkit.Pick(rng, "R", "U", "x") + verifkit.Pick(rng, "", "a", "http://a:1") + ","
	case 16: // byte-mutated valid message
		b := []byte(c28pGood)
		for m := rng.Range(1, 3); m > 0; m-- {
			switch rng.Intn(3) {
			case 0:
				b[rng.Intn(len(b))] = byte(rng.Intn(256))
			case 1:
				p := rng.Intn(len(b))
				b = append(b[:p], b[p+1:]...)
			default:
				p := rng.Intn(len(b) + 1)
				b = append(b[:p], append([]byte{verifkit.Pick(rng, byte(','), byte('R'), byte(0), byte(0xff))}, b[p:]...)...)
			}
		}
		return "mutated-valid", string(b)
	case 17: // other topics' formats arriving on this topic
		return "foreign-format", verifkit.Pick(rng, "http://10.0.0.1:8081|55", "|", "abcdef0123456789", "{\"a\":1}", "cfg_update")
	default: // PRNG mix over a small alphabet
		alpha := []string{",", ",", "R", "U", "\x00", "a", ":", "/", "\xff", "1"}
		var sb strings.Builder
		for n := rng.Range(0, 10); n > 0; n-- {
			sb.WriteString(alpha[rng.Intn(len(alpha))])
		}
		return "alphabet-mix", sb.String()
	}
}

func c28pQuote(b []byte) string {
	if len(b) > 120 {
		return fmt.Sprintf("%q...(%d bytes)", b[:120], len(b))
	}
	return fmt.Sprintf("%q", b)
}

// ---- parent --------------------------------------------------------------------------

func TestVerif_C28Pubsub(t *testing.T) {
	if _, _, child := verifkit.InChild(); child {
		t.Skip("child mode")
	}
	run := verifkit.Start(t, "C28", "pubsub")
	defer run.Finish()
	run.Rule("raw messages for the peers pubsub topic generated by kind (empty, one byte, only commas, leading comma, no comma, unknown action byte, a valid message cut at every position from both ends, long/huge, non-UTF-8, NULs, well-formed R/U with odd addresses/ids, comma second/last, byte-mutated valid message, other topics' formats, small-alphabet mixes), published one at a time through the real pubsub.LocalPubSub to two real RedisPubsubPeers in a child process, every 50th preceded by valid registrations; non-trivial = message delivered to and handled by both listeners; distinct = message kinds")
	run.Assume("pubsub.LocalPubSub delivers like production (one goroutine per subscriber and message, no recover); the go-redis transport itself is not exercised; the subscriber callback is wrapped only to count completions")

	n := run.N(20000, 400000)
	batch := run.N(2500, 10000)
	dir := run.OutDir()
	var inputs []c28pInput
	run.Cases("messages", n, func(i int, rng *verifkit.Rand) {
		k, m := c28pMessage(i, rng)
		inputs = append(inputs, c28pInput{Index: i, Kind: k, Msg: []byte(m)})
	})
	crashes, crashCap := 0, 25
	for lo := 0; lo < len(inputs) && crashes < crashCap; lo += batch {
		hi := lo + batch
		if hi > len(inputs) {
			hi = len(inputs)
		}
		bf := filepath.Join(dir, fmt.Sprintf("c28p-batch-%d.json", lo))
		b, _ := json.Marshal(inputs[lo:hi])
		if err := os.WriteFile(bf, b, 0o644); err != nil {
			t.Fatal(err)
		}
		start := 0
		for start < hi-lo && crashes < crashCap {
			out := verifkit.RunChild(dir, "TestVerif_C28PubsubChild", bf, start, 120*time.Second)
			for i, note := range out.Done {
				if strings.HasPrefix(note, "handled") {
					run.Nontrivial(inputs[lo+i].Kind)
					run.Count("messages_handled_by_both_listeners", 1)
				}
				if strings.Contains(note, "sanity-failed") {
					run.Count("sanity_failures", 1)
				} else if strings.Contains(note, "sanity-ok") {
					run.Count("sanity_checks_ok", 1)
				}
			}
			if out.CrashedAt == -1 {
				break
			}
			if out.CrashedAt == -2 {
				run.Inconclusive("child died outside any message: " + out.Site + " " + out.Message)
				break
			}
			in := inputs[lo+out.CrashedAt]
			wit := map[string]any{"message": c28pQuote(in.Msg), "message_bytes": in.Msg, "kind": in.Kind, "index": in.Index, "topic": "peers", "crash_output_tail": c28pTail(out.Output, 40)}
			if out.TimedOut {
				hung := 0
				for k := 0; k < 2; k++ {
					if o2 := verifkit.RunChild(dir, "TestVerif_C28PubsubChild", bf, out.CrashedAt, 40*time.Second, "VERIF_CHILD_ONLY=1"); o2.TimedOut {
						hung++
					}
				}
				if hung == 2 {
					run.Violation("C28/pubsub/hang/listen", "a peers-topic message is never finished by a listener: "+c28pQuote(in.Msg), wit)
				} else {
					run.Count("timeouts_not_reproduced", 1)
				}
			} else {
				crashes++
				run.Count("child_crashes", 1)
				run.Violation("C28/pubsub/"+out.Site+"/"+out.Message,
					fmt.Sprintf("peers-topic message %s (%s) killed the process hosting the subscribed nodes in %s: %s", c28pQuote(in.Msg), in.Kind, out.Site, out.Message), wit)
			}
			start = out.CrashedAt + 1
		}
		os.Remove(bf)
	}
	if crashes >= crashCap {
		run.Count("stopped_at_crash_cap", 1)
	}
	if len(inputs) > 0 {
		run.Sample(map[string]any{"first_messages": func() []string {
			var s []string
			for _, in := range inputs[:8] {
				s = append(s, in.Kind+": "+c28pQuote(in.Msg))
			}
			return s
		}()})
	}
}

func c28pTail(s string, n int) string {
	lines := strings.Split(s, "\n")
	for i, l := range lines {
		if strings.HasPrefix(l, "panic: ") || strings.HasPrefix(l, "fatal error: ") {
			lines = lines[i:]
			break
		}
	}
	if len(lines) > n {
		lines = lines[:n]
	}
	return strings.Join(lines, "\n")
}

// ---- child -----------------------------------------------------------------------------

type c28pNode struct {
	p    *RedisPubsubPeers
	addr string
}

func TestVerif_C28PubsubChild(t *testing.T) {
	bf, start, ok := verifkit.InChild()
	if !ok {
		t.Skip("not a child")
	}
	b, err := os.ReadFile(bf)
	if err != nil {
		t.Fatal(err)
	}
	var inputs []c28pInput
	if err := json.Unmarshal(b, &inputs); err != nil {
		t.Fatal(err)
	}
	wal, err := verifkit.OpenWAL()
	if err != nil {
		t.Fatal(err)
	}
	defer wal.Close()

	local := &pubsub.LocalPubSub{Metrics: &metrics.NullMetrics{}}
	if err := local.Start(); err != nil {
		t.Fatal(err)
	}
	ps := c28pPubSub{LocalPubSub: local, handled: &atomic.Int64{}, subs: &atomic.Int64{}}
	clock := clockwork.NewFakeClock()
	var nodes []*c28pNode
	for k := 0; k < 2; k++ {
		host := fmt.Sprintf("refinery-%d.refinery", k)
		p := &RedisPubsubPeers{
			Config:     &config.MockConfig{GetPeerListenAddrVal: "0.0.0.0:8081", RedisIdentifier: host, PeerTimeout: time.Second},
			Metrics:    &metrics.NullMetrics{},
			Logger:     &logger.NullLogger{},
			PubSub:     ps,
			Clock:      clock,
			InstanceID: fmt.Sprintf("n0de000%d", k),
			Done:       make(chan struct{}),
		}
		if err := p.Start(); err != nil {
			t.Fatal(err)
		}
		if err := c28pFreezeClock(p, clock); err != nil {
			t.Fatal(err)
		}
		p.RegisterUpdatedPeersCallback(func() { _, _ = p.GetPeers() }) // what the sharder does on a change
		if err := p.Ready(); err != nil {
			t.Fatal(err)
		}
		nodes = append(nodes, &c28pNode{p: p, addr: "http://" + host + ":8081"})
	}
	nsubs := ps.subs.Load()
	if nsubs != 2 {
		t.Fatalf("harness: expected 2 subscriptions on the peers topic, got %d", nsubs)
	}
	topic := local.FormatTopic("peers")
	ctx := context.Background()
	sent := int64(0)
	// publish and wait until every subscriber's callback has returned
	send := func(msg string) {
		if err := ps.Publish(ctx, topic, msg); err != nil {
			t.Fatalf("harness: publish: %v", err)
		}
		sent += nsubs
		for spin := 0; ps.handled.Load() < sent; spin++ {
			if spin < 5000 {
				runtime.Gosched() // the listener goroutines only need the processor
			} else {
				time.Sleep(50 * time.Microsecond) // a listener that never returns ends in the test timeout = hang
			}
		}
	}
	sanity := func() string {
		for _, n := range nodes {
			got, err := n.p.GetPeers()
			if err != nil {
				return "sanity-failed GetPeers error " + err.Error()
			}
			for _, want := range nodes {
				found := false
				for _, a := range got {
					found = found || a == want.addr
				}
				if !found {
					return "sanity-failed " + want.addr + " not listed by " + n.addr
				}
			}
		}
		return "sanity-ok"
	}
	only := os.Getenv("VERIF_CHILD_ONLY") != ""
	for i := start; i < len(inputs); i++ {
		note := "handled"
		if (i-start)%50 == 0 { // valid traffic in between: both nodes (re-)register, a third one comes and goes
			for _, n := range nodes {
				send(c28pValid(Register, n.addr, n.p.InstanceID))
			}
			send(c28pValid(Register, "http://refinery-9.refinery:8081", "feedbeef"))
			send(c28pValid(Unregister, "http://refinery-9.refinery:8081", "feedbeef"))
		}
		wal.Begin(i)
		send(string(inputs[i].Msg))
		if (i-start)%50 == 49 || i == len(inputs)-1 || only {
			note += " " + sanity()
		}
		wal.Done(i, note)
		if only {
			break
		}
	}
	for _, n := range nodes {
		close(n.p.Done)
	}
}
