//go:build verif

package metrics

import (
	"fmt"
	"sort"
	"strings"
	"sync"
	"sync/atomic"
	"testing"
	"time"

	"github.com/anishathalye/porcupine"
	"github.com/honeycombio/refinery/internal/verifkit"
)

// C33: the metrics store reports what was recorded.
//
// Concurrent unit: 2-8 goroutines run short scripted op lists against one real
// MultiMetrics; every call and return is stamped from one atomic counter; the
// recorded history is split by metric name and each partition is checked for
// linearizability against the sequential specification below with porcupine.
//
// Sequential unit: single-goroutine histories biased to Register-after-use,
// stepped against the same specification directly.
//
// Specification per name (state = exists, value):
//   Register        exists=true, value unchanged   (a no-op on the value)
//   Increment       value+1          Count(n) value+n  (n >= 0)
//   Gauge(v)        value=v          Store(v) value=v
//   Up / Down       value+1 / value-1
//   Get -> (v, ok)  v == value when ok; ok=false only while the name is untouched
//
// A failing partition is re-checked against the "reset" specification (Register
// sets value=0). If that one explains the history, the violation is the
// re-registration defect; otherwise it is reported under a different signature.

// ---- adapter (everything that touches the real store) ----------------------

func c33newStore() *MultiMetrics { return NewMultiMetrics() }

type c33kind uint8

const (
	c33Register c33kind = iota
	c33Increment
	c33Count
	c33Gauge
	c33Up
	c33Down
	c33Store
	c33Get
)

var c33kindName = [...]string{"Register", "Increment", "Count", "Gauge", "Up", "Down", "Store", "Get"}
var c33kindCode = [...]byte{'R', 'i', 'c', 'g', 'u', 'd', 's', 'G'}

type c33typ uint8

const (
	c33Counter c33typ = iota
	c33GaugeT
	c33UpDown
	c33StoreT
)

var c33typName = [...]string{"counter", "gauge", "updown", "store"}

type c33in struct {
	Kind c33kind
	Name string
	Typ  c33typ
	N    int64   // Count
	V    float64 // Gauge / Store
}

type c33out struct {
	V  float64
	Ok bool
}

func c33apply(m *MultiMetrics, in c33in) c33out {
	switch in.Kind {
	case c33Register:
		var mt MetricType
		switch in.Typ {
		case c33Counter:
			mt = Counter
		case c33GaugeT:
			mt = Gauge
		case c33UpDown:
			mt = UpDown
		}
		m.Register(Metadata{Name: in.Name, Type: mt, Unit: Dimensionless, Description: "verif"})
	case c33Increment:
		m.Increment(in.Name)
	case c33Count:
		m.Count(in.Name, in.N)
	case c33Gauge:
		m.Gauge(in.Name, in.V)
	case c33Up:
		m.Up(in.Name)
	case c33Down:
		m.Down(in.Name)
	case c33Store:
		m.Store(in.Name, in.V)
	case c33Get:
		v, ok := m.Get(in.Name)
		return c33out{V: v, Ok: ok}
	}
	return c33out{}
}

// ---- specification ---------------------------------------------------------

type c33state struct {
	Exists bool
	V      float64
}

func c33step(reset bool) func(st, in, out interface{}) (bool, interface{}) {
	return func(st, in, out interface{}) (bool, interface{}) {
		s := st.(c33state)
		i := in.(c33in)
		switch i.Kind {
		case c33Register:
			s.Exists = true
			if reset {
				s.V = 0
			}
		case c33Increment:
			s.Exists = true
			s.V++
		case c33Count:
			s.Exists = true
			s.V += float64(i.N)
		case c33Gauge, c33Store:
			s.Exists = true
			s.V = i.V
		case c33Up:
			s.Exists = true
			s.V++
		case c33Down:
			s.Exists = true
			s.V--
		case c33Get:
			o := out.(c33out)
			// ok=false ("never heard of it") is only legal while nothing has
			// touched the name; ok=true must carry the recorded value. ok=true
			// with the initial value 0 before the first operation took effect
			// is allowed: the property is about values, and the store creates
			// the entry and records into it in two steps.
			if !o.Ok && s.Exists {
				return false, s
			}
			if o.Ok && o.V != s.V {
				return false, s
			}
		}
		return true, s
	}
}

func c33model(reset bool) porcupine.Model {
	return porcupine.Model{
		Init: func() interface{} { return c33state{} },
		Step: c33step(reset),
		DescribeOperation: func(in, out interface{}) string {
			return c33describe(in.(c33in), out.(c33out))
		},
	}
}

func c33describe(i c33in, o c33out) string {
	switch i.Kind {
	case c33Register:
		return fmt.Sprintf("Register(%s,%s)", i.Name, c33typName[i.Typ])
	case c33Count:
		return fmt.Sprintf("Count(%s,%d)", i.Name, i.N)
	case c33Gauge, c33Store:
		return fmt.Sprintf("%s(%s,%v)", c33kindName[i.Kind], i.Name, i.V)
	case c33Get:
		return fmt.Sprintf("Get(%s)->(%v,%v)", i.Name, o.V, o.Ok)
	}
	return fmt.Sprintf("%s(%s)", c33kindName[i.Kind], i.Name)
}

// ---- generation ------------------------------------------------------------

type c33name struct {
	name string
	typ  c33typ
}

var c33gaugeVals = []float64{0, 1, -1, 0.5, 42, 1e9, -273.15, 7}

func c33genOp(rng *verifkit.Rand, nm c33name, pRegister, pGet float64) c33in {
	in := c33in{Name: nm.name, Typ: nm.typ}
	x := rng.Float64()
	switch {
	case x < pRegister && nm.typ != c33StoreT:
		in.Kind = c33Register
		return in
	case x < pRegister+pGet:
		in.Kind = c33Get
		return in
	}
	switch nm.typ {
	case c33Counter:
		if rng.Bool() {
			in.Kind = c33Increment
		} else {
			in.Kind = c33Count
			in.N = verifkit.Pick[int64](rng, 0, 1, 2, 5, 1000)
		}
	case c33GaugeT:
		in.Kind = c33Gauge
		in.V = c33gaugeVals[rng.Intn(len(c33gaugeVals))]
	case c33UpDown:
		if rng.Chance(0.55) {
			in.Kind = c33Up
		} else {
			in.Kind = c33Down
		}
	case c33StoreT:
		in.Kind = c33Store
		in.V = c33gaugeVals[rng.Intn(len(c33gaugeVals))]
	}
	return in
}

func c33genNames(rng *verifkit.Rand, max int) []c33name {
	n := rng.Range(1, max)
	out := make([]c33name, n)
	for i := range out {
		t := c33typ(rng.Intn(4))
		if rng.Chance(0.4) {
			t = c33Counter // the property's first clause; bias to it
		}
		out[i] = c33name{name: fmt.Sprintf("verif_%s_%d", c33typName[t], i), typ: t}
	}
	return out
}

// ---- recorded history ------------------------------------------------------

type c33rec struct {
	Client int    `json:"g"`
	Call   int64  `json:"call"`
	Ret    int64  `json:"ret"`
	Op     string `json:"op"`
	in     c33in
	out    c33out
}

func c33mutates(k c33kind) bool { return k != c33Register && k != c33Get }

// ---- the check -------------------------------------------------------------

func TestVerif_C33(t *testing.T) {
	run := verifkit.Start(t, "C33", "metrics")
	defer run.Finish()
	run.Rule("concurrent: PRNG-scripted histories (<=40 ops, <=4 names of type counter/gauge/updown/store, 2-8 goroutines, Register at any position incl. after use and never) on one real MultiMetrics, call/return stamped from one atomic counter, each name's sub-history checked with porcupine; non-trivial = some name had two operations from different goroutines whose [call,return] intervals overlapped; distinct = per-name sequence of op kinds in call order. sequential: single-goroutine histories biased to Register after use, stepped against the specification; non-trivial = a Register follows a value-changing op on the same name; distinct = op-kind sequence")
	run.Assume("porcupine v1.3.0 decides linearizability of the recorded per-name histories; a checker timeout is reported as inconclusive")
	run.Assume("each metric name is used with one metric type only; Count arguments are non-negative; histograms are not stored and not exercised")

	nSeq := run.N(4000, 400000)
	run.Cases("sequential", nSeq, func(i int, rng *verifkit.Rand) { c33sequential(run, rng, i < 2) })
	nCon := run.N(2500, 120000)
	run.Cases("concurrent", nCon, func(i int, rng *verifkit.Rand) { c33concurrent(run, rng, i < 2) })
	run.Cases("hammer", run.N(10, 300), func(i int, rng *verifkit.Rand) { c33hammer(run, rng, i < 1) })
}

func c33sequential(run *verifkit.Run, rng *verifkit.Rand, sample bool) {
	m := c33newStore()
	names := c33genNames(rng, 3)
	steps := rng.Range(3, 30)
	pReg := verifkit.Pick(rng, 0.1, 0.25, 0.4)
	state := map[string]c33state{}
	stateReset := map[string]c33state{}
	mutated := map[string]bool{}
	var hist []string
	var kinds strings.Builder
	regAfterUse := false
	stepOK, stepReset := c33step(false), c33step(true)
	reported := map[string]bool{}
	for s := 0; s < steps; s++ {
		nm := names[rng.Intn(len(names))]
		in := c33genOp(rng, nm, pReg, 0.3)
		out := c33apply(m, in)
		hist = append(hist, c33describe(in, out))
		kinds.WriteByte(c33kindCode[in.Kind])
		kinds.WriteByte(byte('0' + nm.typ))
		if in.Kind == c33Register && mutated[nm.name] {
			regAfterUse = true
		}
		if c33mutates(in.Kind) {
			mutated[nm.name] = true
		}
		ok, ns := stepOK(c33getState(state, nm.name), in, out)
		_, nsr := stepReset(c33getState(stateReset, nm.name), in, out)
		okr, _ := stepReset(c33getState(stateReset, nm.name), in, out)
		state[nm.name] = ns.(c33state)
		stateReset[nm.name] = nsr.(c33state)
		if in.Kind == c33Get {
			run.Count("sequential_gets", 1)
		}
		if !ok && !reported[nm.name] {
			reported[nm.name] = true // later reads of the same name repeat the same fact
			want := state[nm.name]
			sig := "C33/" + c33typName[nm.typ] + "/sequential-get-wrong-value"
			what := fmt.Sprintf("sequential history: %s but the recorded value of this %s is (%v, exists=%v)", c33describe(in, out), c33typName[nm.typ], want.V, want.Exists)
			if okr {
				sig = "C33/register/re-register-resets-value"
				what += "; the answer equals what was recorded since the most recent Register of this name (Register replaced the stored value with a fresh zero)"
			}
			run.Violation(sig, what, map[string]any{"history": hist, "failing_step": s, "metric_type": c33typName[nm.typ]})
		}
	}
	if regAfterUse {
		run.Nontrivial("seq:" + kinds.String())
	}
	if sample {
		run.Sample(map[string]any{"kind": "sequential", "history": hist})
	}
}

func c33getState(m map[string]c33state, k string) c33state { return m[k] }

func c33concurrent(run *verifkit.Run, rng *verifkit.Rand, sample bool) {
	m := c33newStore()
	names := c33genNames(rng, 4)
	g := rng.Range(2, 8)
	total := rng.Range(g, 40)
	pReg := verifkit.Pick(rng, 0.0, 0.1, 0.2, 0.35)
	scripts := make([][]c33in, g)
	// optionally register everything once up front from goroutine 0 (the common startup shape)
	for i := 0; i < total; i++ {
		c := rng.Intn(g)
		nm := names[rng.Intn(len(names))]
		if rng.Chance(0.5) {
			nm = names[0] // contention on one name
		}
		scripts[c] = append(scripts[c], c33genOp(rng, nm, pReg, 0.3))
	}
	var stamp atomic.Int64
	recs := make([][]c33rec, g)
	var ready, done sync.WaitGroup
	start := make(chan struct{})
	for c := 0; c < g; c++ {
		ready.Add(1)
		done.Add(1)
		go func(c int) {
			defer done.Done()
			out := make([]c33rec, 0, len(scripts[c]))
			ready.Done()
			<-start
			for _, in := range scripts[c] {
				call := stamp.Add(1)
				o := c33apply(m, in)
				ret := stamp.Add(1)
				out = append(out, c33rec{Client: c, Call: call, Ret: ret, in: in, out: o})
			}
			recs[c] = out
		}(c)
	}
	ready.Wait()
	close(start)
	done.Wait()

	byName := map[string][]c33rec{}
	for _, rs := range recs {
		for _, r := range rs {
			r.Op = c33describe(r.in, r.out)
			byName[r.in.Name] = append(byName[r.in.Name], r)
		}
	}
	run.Count("concurrent_ops", int64(total))
	for _, nm := range names {
		part := byName[nm.name]
		if len(part) == 0 {
			continue
		}
		sort.Slice(part, func(i, j int) bool { return part[i].Call < part[j].Call })
		overlap := false
		maxRet, maxRetClient := int64(-1), -1
		var kinds strings.Builder
		kinds.WriteString(c33typName[nm.typ])
		kinds.WriteByte(':')
		ops := make([]porcupine.Operation, len(part))
		for i, r := range part {
			if r.Call < maxRet && (r.Client != maxRetClient) {
				overlap = true
			}
			if r.Ret > maxRet {
				maxRet, maxRetClient = r.Ret, r.Client
			}
			kinds.WriteByte(c33kindCode[r.in.Kind])
			ops[i] = porcupine.Operation{ClientId: r.Client, Input: r.in, Call: r.Call, Output: r.out, Return: r.Ret}
		}
		if overlap {
			run.Count("partitions_with_overlapping_ops", 1)
			run.Nontrivial(kinds.String())
		}
		run.Count("partitions_checked", 1)
		res := porcupine.CheckOperationsTimeout(c33model(false), ops, 20*time.Second)
		switch res {
		case porcupine.Ok:
			continue
		case porcupine.Unknown:
			run.Inconclusive("porcupine timed out on a partition of " + fmt.Sprint(len(ops)) + " operations")
			continue
		}
		sig := "C33/" + c33typName[nm.typ] + "/history-not-linearizable"
		what := fmt.Sprintf("no sequential order of the %d recorded operations on %s %q explains the values Get returned", len(ops), c33typName[nm.typ], nm.name)
		if porcupine.CheckOperationsTimeout(c33model(true), ops, 20*time.Second) == porcupine.Ok {
			sig = "C33/register/re-register-resets-value"
			what += "; the history is explained if Register replaces the stored value with a fresh zero"
		}
		run.Violation(sig, what, map[string]any{"metric_type": c33typName[nm.typ], "goroutines": g, "history_by_call_stamp": part})
	}
	if sample {
		var flat []c33rec
		for _, p := range byName {
			flat = append(flat, p...)
		}
		sort.Slice(flat, func(i, j int) bool { return flat[i].Call < flat[j].Call })
		run.Sample(map[string]any{"kind": "concurrent", "goroutines": g, "history": flat})
	}
}

// c33hammer: conservation per counter under sustained concurrency. K goroutines each own one
// counter name and call Increment on it N times (plus, in some cases, one shared counter that
// every goroutine also bumps, and Count(name, 1) mixed in); when all have returned, Get of each
// counter must equal exactly what was recorded into it. Unique owner per name => the expected
// value is known without any history checking.
func c33hammer(run *verifkit.Run, rng *verifkit.Rand, sample bool) {
	m := c33newStore()
	k := rng.Range(2, 6)
	n := rng.Range(20000, 60000)
	registered := rng.Chance(0.7)
	shared := rng.Chance(0.5)
	mixCount := rng.Chance(0.3)
	names := make([]string, k)
	for i := range names {
		names[i] = fmt.Sprintf("verif_hammer_%d", i)
		if registered {
			c33apply(m, c33in{Kind: c33Register, Name: names[i], Typ: c33Counter})
		}
	}
	const sharedName = "verif_hammer_shared"
	if shared && registered {
		c33apply(m, c33in{Kind: c33Register, Name: sharedName, Typ: c33Counter})
	}
	sharedEvery := rng.Range(2, 50)
	start := make(chan struct{})
	var wg sync.WaitGroup
	sharedTotals := make([]int64, k)
	for g := 0; g < k; g++ {
		wg.Add(1)
		go func(g int) {
			defer wg.Done()
			<-start
			own := names[g]
			for i := 0; i < n; i++ {
				if mixCount && i%7 == 3 {
					m.Count(own, 1)
				} else {
					m.Increment(own)
				}
				if shared && i%sharedEvery == 0 {
					m.Increment(sharedName)
					sharedTotals[g]++
				}
			}
		}(g)
	}
	close(start)
	wg.Wait()
	run.Count("hammer_increments", int64(k*n))
	got := map[string]float64{}
	var total, want float64
	wrong := 0
	for _, nm := range names {
		v, _ := m.Get(nm)
		got[nm] = v
		total += v
		want += float64(n)
		if v != float64(n) {
			wrong++
		}
	}
	var wantShared float64
	if shared {
		for _, x := range sharedTotals {
			wantShared += float64(x)
		}
		v, _ := m.Get(sharedName)
		got[sharedName] = v
		total += v
		want += wantShared
		if v != wantShared {
			wrong++
		}
	}
	if wrong > 0 {
		sig := "C33/counter/concurrent-increment/per-counter-total-wrong"
		what := fmt.Sprintf("%d goroutines incremented their own counter %d times each; %d counters read back another value", k, n, wrong)
		if total == want {
			sig += "/grand-total-conserved"
			what += " while the sum over all counters is right (increments were credited to another counter)"
		}
		run.Violation(sig, what, map[string]any{"goroutines": k, "increments_per_counter": n, "registered_first": registered, "shared_counter_expected": wantShared, "read_back": got})
	}
	run.Nontrivial(fmt.Sprintf("hammer k%d reg%v sh%v mix%v", k, registered, shared, mixCount))
	if sample {
		run.Sample(map[string]any{"kind": "hammer", "goroutines": k, "increments_per_counter": n, "read_back": got})
	}
}
