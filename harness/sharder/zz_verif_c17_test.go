//go:build verif

package sharder

import (
	"fmt"
	"sort"
	"strings"
	"sync"
	"testing"

	"github.com/honeycombio/refinery/config"
	"github.com/honeycombio/refinery/internal/peer"
	"github.com/honeycombio/refinery/internal/verifkit"
	"github.com/honeycombio/refinery/logger"
	"github.com/honeycombio/refinery/metrics"
)

// C17 (unit "sharder"): every DeterministicSharder that sees the same list of
// peer addresses, in any order, computes the same owner for any trace id, the
// owner is one of the listed peers, and exactly the owner recognises itself
// (WhichShard(id).Equals(MyShard())) so that no node would forward to itself.
//
// Monitor: N real sharders are built from permutations of one generated peer
// list (all permutations for n<=5, sampled ones beyond), through the real
// Start()/loadPeerList()/peer-change-callback paths, and queried with the same
// generated trace ids; their answers are compared with each other (no
// re-implementation of the hash).

// ---- adapters (only place that touches unexported identifiers) -------------

func c17Load(d *DeterministicSharder) error { return d.loadPeerList() }

// ---- generators ------------------------------------------------------------

func c17Addr(rng *verifkit.Rand, style int, k int) string {
	port := verifkit.Pick(rng, "8081", "8081", "8081", "9000", "443", "65535")
	scheme := verifkit.Pick(rng, "http", "http", "http", "https")
	var host string
	switch style {
	case 0: // IPv4, close together
		host = fmt.Sprintf("10.%d.%d.%d", rng.Intn(2), rng.Intn(3), k+1)
	case 1: // bracketed IPv6
		host = fmt.Sprintf("[2600:1f18:2772:d500:%x:%x::%x]", rng.Intn(4), rng.Intn(0x10000), k+1)
	case 2: // k8s-style host names sharing long prefixes (refinery-1 / refinery-10 ...)
		host = fmt.Sprintf("refinery-%d.refinery.svc.cluster.local", k)
	case 3: // short names, numeric suffix prefixes of one another
		host = fmt.Sprintf("r%d", k)
	case 4: // mixed case / odd but legal hosts
		host = verifkit.Pick(rng, "Refinery", "REFINERY", "refinery", "xn--rfinery-cya") + fmt.Sprintf("-%02d.example.COM", k)
	default: // compressed / loopback-ish IPv6
		host = fmt.Sprintf("[fe80::%x]", k+1)
	}
	return scheme + "://" + host + ":" + port
}

// c17List returns n addresses (possibly containing duplicates when dup is set).
func c17List(rng *verifkit.Rand, n int, dup bool) []string {
	mixed := rng.Chance(0.35)
	style := rng.Intn(6)
	seen := map[string]bool{}
	var out []string
	for k := 0; len(out) < n; k++ {
		st := style
		if mixed {
			st = rng.Intn(6)
		}
		a := c17Addr(rng, st, k)
		if seen[a] {
			continue
		}
		seen[a] = true
		out = append(out, a)
	}
	if dup && n >= 2 {
		// overwrite a few entries with copies of others: same length, repeated addresses
		for r := rng.Range(1, 1+n/4); r > 0; r-- {
			out[rng.Intn(n)] = out[rng.Intn(n)]
		}
	}
	return out
}

func c17TraceID(rng *verifkit.Rand, i int, addrs []string) string {
	switch rng.Intn(12) {
	case 0:
		return ""
	case 1:
		return strings.ToUpper(rng.Hex(32))
	case 2:
		return rng.Hex(16)
	case 3:
		return fmt.Sprintf("trace-%d", i)
	case 4:
		b := make([]byte, rng.Range(1, 40))
		for j := range b {
			b[j] = byte(rng.Intn(256))
		}
		return string(b)
	case 5:
		return strings.Repeat(rng.Hex(8), rng.Range(5, 40))
	case 6:
		return addrs[rng.Intn(len(addrs))]
	case 7:
		return verifkit.Pick(rng, "RCIVNUNA", "0", "00000000000000000000000000000000", "ffffffffffffffffffffffffffffffff", "test")
	default:
		return rng.Hex(32)
	}
}

func c17Permute(xs []string, p []int) []string {
	out := make([]string, len(xs))
	for i, j := range p {
		out[i] = xs[j]
	}
	return out
}

// c17AllPerms enumerates all permutations of 0..n-1 (n<=5).
func c17AllPerms(n int) [][]int {
	var res [][]int
	p := make([]int, n)
	for i := range p {
		p[i] = i
	}
	var rec func(k int)
	rec = func(k int) {
		if k == n {
			res = append(res, append([]int(nil), p...))
			return
		}
		for i := k; i < n; i++ {
			p[k], p[i] = p[i], p[k]
			rec(k + 1)
			p[k], p[i] = p[i], p[k]
		}
	}
	rec(0)
	return res
}

// ---- the units under observation ------------------------------------------

type c17node struct {
	kind  string // fresh | noself | reloaded | filepeers
	self  string // "" when the node is not in the list
	order []string
	prior []string // list loaded before (kind reloaded)
	sh    *DeterministicSharder
	extra map[string]any
}

func (n *c17node) describe() map[string]any {
	m := map[string]any{"kind": n.kind, "self": n.self, "list_as_seen": n.order}
	if n.prior != nil {
		m["list_loaded_before"] = n.prior
	}
	for k, v := range n.extra {
		m[k] = v
	}
	return m
}

func c17NewMockNode(kind string, order []string, self string, prior []string) (*c17node, error) {
	n := &c17node{kind: kind, self: self, order: order, prior: prior}
	first := order
	if prior != nil {
		first = prior
	}
	mp := peer.NewMockPeers(append([]string(nil), first...), self)
	n.sh = &DeterministicSharder{
		Config: &config.MockConfig{},
		Logger: &logger.NullLogger{},
		Peers:  mp,
	}
	if self == "" {
		// Start() would spend 25 s of real time looking for itself; a node that is
		// not in the list is built through the same loadPeerList() the peer-change
		// callback uses.
		if err := c17Load(n.sh); err != nil {
			return nil, err
		}
		mp.RegisterUpdatedPeersCallback(func() { _ = c17Load(n.sh) })
	} else if err := n.sh.Start(); err != nil {
		return nil, err
	}
	if prior != nil {
		mp.UpdatePeers(append([]string(nil), order...)) // runs the sharder's registered callback synchronously
	}
	return n, nil
}

// c17NewFileNode builds a sharder over the real FilePeers: configured Peers are
// the other nodes ("excluding self" per the docs) in the given order, the node's
// own address comes from PeerListenAddr + RedisIdentifier.
func c17NewFileNode(others []string, selfHost, selfPort string) (*c17node, error) {
	cfg := &config.MockConfig{
		GetPeersVal:          append([]string(nil), others...),
		GetPeerListenAddrVal: "0.0.0.0:" + selfPort,
		RedisIdentifier:      selfHost,
		PeerManagementType:   "file",
	}
	fp := &peer.FilePeers{Cfg: cfg, Logger: &logger.NullLogger{}, Metrics: &metrics.NullMetrics{}}
	if err := fp.Start(); err != nil {
		return nil, err
	}
	self, _ := fp.GetInstanceID()
	seen, _ := fp.GetPeers()
	n := &c17node{kind: "filepeers", self: self, order: append([]string(nil), seen...)}
	n.sh = &DeterministicSharder{Config: cfg, Logger: &logger.NullLogger{}, Peers: fp}
	if err := n.sh.Start(); err != nil {
		return nil, err
	}
	return n, nil
}

func c17q(s string) string { return fmt.Sprintf("%q", s) }

// c17Compare queries every node with every id and reports disagreements.
// Returns the number of distinct owners seen (for the non-triviality rule).
func c17Compare(run *verifkit.Run, family string, base []string, nodes []*c17node, ids []string) int {
	inList := map[string]bool{}
	for _, a := range base {
		inList[a] = true
	}
	owners := map[string]bool{}
	for _, n := range nodes {
		if n.self != "" {
			if got := n.sh.MyShard().GetAddress(); got != n.self {
				run.Violation("C17/sharder/"+family+"/myshard-is-not-self",
					fmt.Sprintf("MyShard()=%s on the node whose own address is %s", c17q(got), c17q(n.self)),
					map[string]any{"node": n.describe()})
			}
		}
	}
	for _, id := range ids {
		ref := nodes[0].sh.WhichShard(id).GetAddress()
		owners[ref] = true
		claimants := map[string]bool{}
		for ni, n := range nodes {
			sh := n.sh.WhichShard(id)
			got := sh.GetAddress()
			run.Count("whichshard_calls", 1)
			if !inList[got] {
				run.Violation("C17/sharder/"+family+"/owner-not-in-peer-list",
					fmt.Sprintf("WhichShard(%s)=%s is not one of the listed peers", c17q(id), c17q(got)),
					map[string]any{"trace_id": c17q(id), "node": n.describe()})
			}
			if got != ref {
				sig := "C17/sharder/" + family + "/owner-differs-between-orderings"
				if n.kind == "reloaded" {
					sig = "C17/sharder/" + family + "/owner-differs-after-peer-list-change"
				}
				if n.kind == "changed-during-start" {
					sig = "C17/sharder/" + family + "/sharder-keeps-list-from-before-the-change"
				}
				run.Violation(sig,
					fmt.Sprintf("trace id %s: node #0 says %s, node #%d (same addresses, other order) says %s", c17q(id), c17q(ref), ni, c17q(got)),
					map[string]any{"trace_id": c17q(id), "node_0": nodes[0].describe(), "node_other": n.describe()})
			}
			mine := sh.Equals(n.sh.MyShard())
			if n.self != "" {
				if mine != (got == n.self) {
					run.Violation("C17/sharder/"+family+"/self-detection-inconsistent",
						fmt.Sprintf("trace id %s: owner %s, node self %s, but WhichShard(id).Equals(MyShard())=%v", c17q(id), c17q(got), c17q(n.self), mine),
						map[string]any{"trace_id": c17q(id), "node": n.describe()})
				}
				if mine {
					claimants[n.self] = true
				}
			} else if mine {
				run.Violation("C17/sharder/"+family+"/unlisted-node-claims-ownership",
					fmt.Sprintf("trace id %s: a node that is not in the peer list treats owner %s as itself", c17q(id), c17q(got)),
					map[string]any{"trace_id": c17q(id), "node": n.describe()})
			}
		}
		if len(claimants) > 1 {
			cl := make([]string, 0, len(claimants))
			for c := range claimants {
				cl = append(cl, c)
			}
			sort.Strings(cl)
			run.Violation("C17/sharder/"+family+"/several-nodes-claim-one-trace",
				fmt.Sprintf("trace id %s is treated as local by %d different nodes", c17q(id), len(cl)),
				map[string]any{"trace_id": c17q(id), "claimants": cl, "peer_list": base})
		}
	}
	return len(owners)
}

func TestVerif_C17(t *testing.T) {
	run := verifkit.Start(t, "C17", "sharder")
	defer run.Finish()
	run.Rule("one generated peer list per case (1..32 addresses: IPv4, bracketed IPv6, host names sharing prefixes, mixed schemes/ports, optionally repeated entries); real DeterministicSharders built from all permutations of it for n<=5 and from identity, reverse, rotations and random permutations beyond, with the node itself at varying positions or absent, some having loaded a different list before (peer-change callback), plus a family over the real FilePeers (configured Peers = the others in any order); 48 generated trace ids per case (hex 32/16, upper case, empty, raw bytes, long, equal to an address, known edge ids). Non-trivial = at least two sharders that saw different orders and at least two distinct owners among the ids; distinct = (family, n, repeated entries, address styles mixed, self placement, number of owners) tuples")
	run.Assume("peer.MockPeers / config.MockConfig deliver the list to the sharder unchanged; the real FilePeers is used for the file family")
	run.Assume("only sharders that see the same multiset of addresses are compared (the property's premise)")

	run.Cases("permutations", run.N(500, 100000), func(i int, rng *verifkit.Rand) { c17PermCase(run, i, rng) })
	run.Cases("filepeers", run.N(150, 20000), func(i int, rng *verifkit.Rand) { c17FileCase(run, i, rng) })
	run.Cases("change-during-start", run.N(400, 40000), func(i int, rng *verifkit.Rand) { c17StartCase(run, i, rng) })
}

func c17PermCase(run *verifkit.Run, i int, rng *verifkit.Rand) {
	var n int
	switch {
	case i%4 == 0:
		n = rng.Range(1, 5) // exhaustive region
	case i%4 == 1:
		n = rng.Range(6, 12)
	default:
		n = rng.Range(1, 32)
	}
	dup := rng.Chance(0.25)
	base := c17List(rng, n, dup)

	var perms [][]int
	if n <= 5 {
		perms = c17AllPerms(n)
	} else {
		id := make([]int, n)
		rev := make([]int, n)
		rot := make([]int, n)
		r := rng.Range(1, n-1)
		for k := 0; k < n; k++ {
			id[k], rev[k], rot[k] = k, n-1-k, (k+r)%n
		}
		perms = append(perms, id, rev, rot)
		swap := append([]int(nil), id...)
		a, b := rng.Intn(n), rng.Intn(n)
		swap[a], swap[b] = swap[b], swap[a]
		perms = append(perms, swap)
		for k := rng.Range(4, 8); k > 0; k-- {
			perms = append(perms, rng.Perm(n))
		}
	}

	var nodes []*c17node
	selfModes := map[string]bool{}
	orders := map[string]bool{}
	for pi, p := range perms {
		order := c17Permute(base, p)
		orders[strings.Join(order, "\x00")] = true
		mode := rng.Intn(10)
		var nd *c17node
		var err error
		switch {
		case mode < 2: // node not in the list
			selfModes["absent"] = true
			nd, err = c17NewMockNode("noself", order, "", nil)
		case mode < 4: // loaded another list before
			selfModes["reloaded"] = true
			var prior []string
			switch rng.Intn(4) {
			case 0: // same length, different addresses
				prior = c17List(rng, n, false)
			case 1: // a strict subset / superset
				prior = append([]string(nil), order[:rng.Range(1, n)]...)
				if rng.Bool() {
					prior = append(append([]string(nil), order...), c17List(rng, rng.Range(1, 3), false)...)
				}
			case 2: // same multiset in another order (no change expected)
				prior = c17Permute(base, rng.Perm(n))
			default: // one element replaced
				prior = append([]string(nil), order...)
				prior[rng.Intn(n)] = "http://replaced.example:8081"
			}
			self := ""
			if rng.Chance(0.7) {
				// self must be in both lists for Start() to find it at once
				for _, c := range order {
					for _, q := range prior {
						if c == q {
							self = c
						}
					}
				}
			}
			if self == "" {
				selfModes["absent"] = true
			}
			nd, err = c17NewMockNode("reloaded", order, self, prior)
		default:
			pos := rng.Intn(n)
			switch pi % 3 {
			case 0:
				pos = 0
			case 1:
				pos = n - 1
			}
			selfModes["listed"] = true
			nd, err = c17NewMockNode("fresh", order, order[pos], nil)
		}
		if err != nil {
			t := map[string]any{"list": order, "error": err.Error()}
			run.Violation("C17/sharder/permutations/sharder-does-not-start", "a sharder given a non-empty peer list failed to load it: "+err.Error(), t)
			continue
		}
		nodes = append(nodes, nd)
	}
	if len(nodes) == 0 {
		return
	}
	ids := make([]string, 48)
	for k := range ids {
		ids[k] = c17TraceID(rng, k, base)
	}
	nOwners := c17Compare(run, "permutations", base, nodes, ids)
	run.Count("sharders_built", int64(len(nodes)))
	if len(orders) >= 2 && nOwners >= 2 {
		modes := make([]string, 0, 3)
		for m := range selfModes {
			modes = append(modes, m)
		}
		sort.Strings(modes)
		run.Nontrivial(fmt.Sprintf("perm n=%d dup=%v v6=%v self=%v owners=%d", n, dup, strings.Contains(strings.Join(base, ""), "["), modes, nOwners))
	}
	if i < 2 {
		run.Sample(map[string]any{"family": "permutations", "peer_list": base, "sharders": len(nodes), "distinct_orders": len(orders), "trace_ids": len(ids), "distinct_owners": nOwners})
	}
}

func c17FileCase(run *verifkit.Run, i int, rng *verifkit.Rand) {
	n := rng.Range(1, 12)
	if i%5 == 0 {
		n = rng.Range(13, 32)
	}
	type hp struct{ host, port string }
	seen := map[string]bool{}
	var hps []hp
	style := rng.Intn(3)
	for k := 0; len(hps) < n; k++ {
		var h string
		switch style {
		case 0:
			h = fmt.Sprintf("10.0.%d.%d", rng.Intn(2), k+1)
		case 1:
			h = fmt.Sprintf("[2600:1f18:2772:d500::%x]", k+1)
		default:
			h = fmt.Sprintf("refinery-%d", k)
		}
		x := hp{h, verifkit.Pick(rng, "8081", "8081", "9000")}
		if seen[x.host+":"+x.port] {
			continue
		}
		seen[x.host+":"+x.port] = true
		hps = append(hps, x)
	}
	all := make([]string, n)
	for k, x := range hps {
		all[k] = "http://" + x.host + ":" + x.port
	}
	var nodes []*c17node
	orders := map[string]bool{}
	for k, x := range hps {
		others := make([]string, 0, n-1)
		for j, a := range all {
			if j != k {
				others = append(others, a)
			}
		}
		verifkit.Shuffle(rng, others)
		nd, err := c17NewFileNode(others, x.host, x.port)
		if err != nil {
			run.Violation("C17/sharder/filepeers/sharder-does-not-start", "a sharder over FilePeers failed to start: "+err.Error(),
				map[string]any{"configured_peers": others, "self": all[k]})
			continue
		}
		if nd.self != all[k] {
			t := fmt.Sprintf("harness: FilePeers reports own address %q, expected %q", nd.self, all[k])
			run.Inconclusive(t)
			return
		}
		orders[strings.Join(nd.order, "\x00")] = true
		nodes = append(nodes, nd)
	}
	if len(nodes) == 0 {
		return
	}
	ids := make([]string, 48)
	for k := range ids {
		ids[k] = c17TraceID(rng, k, all)
	}
	nOwners := c17Compare(run, "filepeers", all, nodes, ids)
	// every trace must be claimed by exactly one of the nodes (all nodes exist here)
	for _, id := range ids {
		c := 0
		for _, nd := range nodes {
			if nd.sh.WhichShard(id).Equals(nd.sh.MyShard()) {
				c++
			}
		}
		if c == 0 && len(nodes) == n {
			run.Violation("C17/sharder/filepeers/no-node-claims-trace",
				fmt.Sprintf("trace id %s is treated as local by none of the %d nodes of the cluster", c17q(id), n),
				map[string]any{"trace_id": c17q(id), "peer_list": all})
		}
	}
	run.Count("sharders_built", int64(len(nodes)))
	if len(orders) >= 2 && nOwners >= 2 {
		run.Nontrivial(fmt.Sprintf("file n=%d style=%d owners=%d", n, style, nOwners))
	}
	if i < 1 {
		run.Sample(map[string]any{"family": "filepeers", "peer_list": all, "sharders": len(nodes), "distinct_owners": nOwners})
	}
}

// ---- family: the peer list changes while the sharder starts -------------------------

// c17ScriptedPeers is a peer.Peers (an injected dependency of the sharder) whose
// list changes between two of the calls Start() makes on it. Like
// RedisPubsubPeers.checkHash it then starts `go cb()` for the callbacks
// registered so far -- and only for those; later registrations are not told
// about earlier changes. Calls are counted on the Start goroutine only: while
// callbacks run (mode "at once") the Start goroutine is parked inside the call,
// in mode "late" the callback goroutines wait until Start has returned.
type c17ScriptedPeers struct {
	mu        sync.Mutex
	list      []string
	id        string
	callbacks []func()
	calls     int              // calls made by Start so far
	changes   map[int][]string // before call number k (1-based) the list becomes changes[k]
	late      bool             // started callbacks only get to run after Start has returned
	gate      chan struct{}
	wg        sync.WaitGroup
	inStart   bool
	trace     []string
}

func (p *c17ScriptedPeers) apply(newList []string, why string) {
	p.mu.Lock()
	p.list = append([]string(nil), newList...)
	cbs := append([]func(){}, p.callbacks...)
	p.trace = append(p.trace, fmt.Sprintf("%s: list becomes %d peers, %d callback(s) notified", why, len(newList), len(cbs)))
	gate, late := p.gate, p.late && p.inStart
	p.mu.Unlock()
	for _, cb := range cbs {
		cb := cb
		p.wg.Add(1)
		go func() {
			defer p.wg.Done()
			if late {
				<-gate
			}
			cb()
		}()
	}
	if !late {
		p.wg.Wait()
	}
}

// step is called at the start of every Peers method.
func (p *c17ScriptedPeers) step(what string) {
	p.mu.Lock()
	if !p.inStart {
		p.mu.Unlock()
		return
	}
	p.calls++
	k := p.calls
	nl, ok := p.changes[k]
	p.trace = append(p.trace, fmt.Sprintf("call %d: %s", k, what))
	if ok {
		delete(p.changes, k)
	}
	p.inStart = false // calls made by callbacks while we are parked here are not Start's
	p.mu.Unlock()
	if ok {
		p.apply(nl, fmt.Sprintf("before call %d", k))
	}
	p.mu.Lock()
	p.inStart = true
	p.mu.Unlock()
}

func (p *c17ScriptedPeers) GetPeers() ([]string, error) {
	p.step("GetPeers")
	p.mu.Lock()
	defer p.mu.Unlock()
	return append([]string(nil), p.list...), nil
}

func (p *c17ScriptedPeers) GetInstanceID() (string, error) {
	p.step("GetInstanceID")
	return p.id, nil
}

func (p *c17ScriptedPeers) RegisterUpdatedPeersCallback(cb func()) {
	p.step("RegisterUpdatedPeersCallback")
	p.mu.Lock()
	p.callbacks = append(p.callbacks, cb)
	p.mu.Unlock()
}

func (p *c17ScriptedPeers) Start() error { return nil }
func (p *c17ScriptedPeers) Ready() error { return nil }

var _ peer.Peers = (*c17ScriptedPeers)(nil)

func c17StartCase(run *verifkit.Run, i int, rng *verifkit.Rand) {
	n := rng.Range(2, 12)
	pool := c17List(rng, n+3, false)
	self := pool[0]
	// old and final list both contain the node itself (Start must find it at once)
	mk := func() []string {
		l := []string{self}
		for _, a := range pool[1:] {
			if rng.Chance(0.6) {
				l = append(l, a)
			}
		}
		verifkit.Shuffle(rng, l)
		return l
	}
	old, final := mk(), mk()
	for tries := 0; strings.Join(c17Sorted(old), ",") == strings.Join(c17Sorted(final), ",") && tries < 10; tries++ {
		final = mk()
	}
	changes := map[int][]string{}
	// Start makes three calls on Peers; 4 = right after Start has returned
	at := rng.Range(1, 4)
	changes[at] = final
	var mid []string
	if at > 1 && rng.Chance(0.3) { // an earlier, intermediate change as well
		mid = mk()
		changes[rng.Range(1, at-1)] = mid
	}
	sp := &c17ScriptedPeers{list: append([]string(nil), old...), id: self, changes: changes, late: rng.Bool(), gate: make(chan struct{})}
	sh := &DeterministicSharder{Config: &config.MockConfig{}, Logger: &logger.NullLogger{}, Peers: sp}
	sp.inStart = true
	err := sh.Start()
	sp.mu.Lock()
	sp.inStart = false
	callsInStart := sp.calls
	pending := sp.changes
	sp.changes = map[int][]string{}
	sp.mu.Unlock()
	close(sp.gate) // callbacks that were started during Start may run now
	sp.wg.Wait()
	for k := callsInStart + 1; k <= 4; k++ { // change points Start never reached: after Start
		if nl, ok := pending[k]; ok {
			sp.apply(nl, "after Start returned")
		}
	}
	sp.wg.Wait()
	wit := func() map[string]any {
		return map[string]any{"self": self, "list_before": old, "list_intermediate": mid, "list_final": final, "change_before_call": at, "callbacks_run": map[bool]string{true: "after Start returned", false: "at once"}[sp.late], "peers_call_trace": sp.trace}
	}
	if err != nil {
		run.Violation("C17/sharder/change-during-start/sharder-does-not-start", "Start failed although the node is in the list before and after the change: "+err.Error(), wit())
		return
	}
	seen, _ := sp.GetPeers()
	if strings.Join(c17Sorted(seen), ",") != strings.Join(c17Sorted(final), ",") {
		run.Inconclusive("harness: scripted Peers does not report the final list")
		return
	}
	ref, err := c17NewMockNode("fresh", append([]string(nil), final...), self, nil)
	if err != nil {
		run.Inconclusive("harness: reference sharder: " + err.Error())
		return
	}
	node := &c17node{kind: "changed-during-start", self: self, order: seen, prior: old, sh: sh, extra: wit()}
	ids := make([]string, 48)
	for k := range ids {
		ids[k] = c17TraceID(rng, k, final)
	}
	before := run.ViolationCount()
	nOwners := c17Compare(run, "change-during-start", final, []*c17node{ref, node}, ids)
	if run.ViolationCount() > before {
		run.Count("change_during_start_cases_with_violation", 1)
	}
	run.Count("sharders_started_during_a_change", 1)
	if nOwners >= 2 {
		run.Nontrivial(fmt.Sprintf("start-change at=%d mid=%v late=%v n=%d->%d", at, mid != nil, sp.late, len(old), len(final)))
	}
	if i < 1 {
		run.Sample(wit())
	}
}

func c17Sorted(xs []string) []string {
	out := append([]string(nil), xs...)
	sort.Strings(out)
	return out
}
