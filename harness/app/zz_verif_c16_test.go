//go:build verif

package app

// C16: while stress relief is active, a trace first seen during that time is
// kept or dropped by the deterministic stress-relief rule without being
// buffered, and that decision is remembered so its later spans follow it even
// after relief ends. Each kept span is forwarded to Honeycomb exactly once,
// marked meta.stressed, with its fields, API key, dataset and destination
// host otherwise unaffected by the probe Refinery may send to the trace's
// owning peer, and no node ever forwards a probe to Honeycomb.
//
// Engine E2, 2-3 nodes, real StressRelief switched always/never the way a
// reload does it. Observed at the fake Honeycomb and at the sockets of the
// nodes' upstream/peer transports.

import (
	"context"
	"fmt"
	"math"
	"sort"
	"strings"
	"sync"
	"testing"
	"time"

	"github.com/dgryski/go-wyhash"

	"github.com/honeycombio/refinery/config"
	"github.com/honeycombio/refinery/internal/verifkit"
	"github.com/honeycombio/refinery/types"
)

// c16Keep is the documented deterministic stress-relief rule restated: hash
// the trace id with the cluster-wide seed and keep 1 in `rate`.
func c16Keep(traceID string, rate uint64) bool {
	if rate <= 1 {
		return true
	}
	return wyhash.Hash([]byte(traceID), 34527861234) <= math.MaxUint64/rate
}

type c16Span struct {
	span    e2Span
	entry   int
	phase   int // 1,2 = while stressed; 3 = after relief ended
	key     string
	dataset string
	manual  bool // posted by a scripted part of the case, not by postPhase
}

func TestVerif_C16(t *testing.T) {
	run := verifkit.Start(t, "C16", "cluster")
	defer run.Finish()
	run.Rule("a case = one 2-3 node cluster (PRNG: stress SamplingRate 0|1|2|3|5|50, BatchTimeout 5-50ms, MaxBatchSize 1-500, normal sampler keep-all or drop-all; case 0 mod 4 is fixed to SamplingRate 1 + drop-all normal sampler, case 2 mod 4 to SamplingRate 0|1|2|50 + drop-all) and 30-50 traces whose spans arrive in three phases on PRNG-chosen nodes: first spans while stressed, more spans while still stressed, late spans after relief ended (with or without waiting for the upstream batches to be dispatched first), plus fresh traces after relief; non-trivial when a trace first seen under stress is observed; distinct = (rate, rule decision, entered on owner / non-owner / both, has later stressed spans, has late spans after relief)")
	run.Assume("expected decision = wyhash(traceID, 34527861234) <= MaxUint64/SamplingRate, restated in the harness from the StressRelief documentation/code constant")
	run.Assume("stress relief is switched on all nodes between phases while no client request is outstanding and no peer request is queued")

	run.Cases("stress", run.N(4, 300), func(ci int, rng *verifkit.Rand) {
		nNodes := 2 + rng.Intn(2)
		rate := verifkit.Pick(rng, uint64(1), 2, 2, 3, 5, 50)
		batchTimeout := time.Duration(rng.Range(5, 50)) * time.Millisecond
		maxBatch := verifkit.Pick(rng, 1, 2, 5, 20, 50, 500)
		normalKeepsAll := rng.Bool()
		compress := rng.Bool()
		waitUpstreamBeforeRelief := rng.Bool()
		// SamplingRate after a reload that arrives while relief is active (before the bursts)
		rate2 := verifkit.Pick(rng, uint64(1), 2, 3, 5)
		// Fixed strata so that every tier has the "keep everything under stress,
		// normal sampler would drop" combination: with SamplingRate 1 (or 0, which
		// StressRelief normalises to 1) every trace first seen under stress is kept,
		// so a late span after relief can only be forwarded if the stress decision
		// was remembered; a fresh decision by the drop-all sampler loses it.
		// Stratum 3 ("lru"): long-lived traces kept under stress relief on a node with a
		// tiny kept-decision cache (one worker, KeptSize 8): between their first span
		// and relief ending more than KeptSize other traces are kept on that worker,
		// but fewer than KeptSize since their latest span, so a cache that refreshes
		// an entry when it is used still knows them.
		lru := ci%4 == 3
		switch ci % 4 {
		case 0:
			rate, normalKeepsAll, maxBatch = 1, false, 500 // 500 = the production default MaxBatchSize
		case 2:
			rate, normalKeepsAll, maxBatch = verifkit.Pick(rng, uint64(0), 1, 2, 50), false, 500
		case 3:
			rate, normalKeepsAll = 1, false
		}
		cl, err := e2Start(e2Options{Nodes: nNodes, Configure: func(_ int, cfg *config.MockConfig) {
			cfg.GetTracesConfigVal.BatchTimeout = config.Duration(batchTimeout)
			cfg.GetTracesConfigVal.MaxBatchSize = uint(maxBatch)
			cfg.GetTracesConfigVal.TraceTimeout = config.Duration(60 * time.Millisecond)
			cfg.GetTracesConfigVal.SendDelay = config.Duration(5 * time.Millisecond)
			cfg.GetCompressPeerCommunicationsVal = compress
			if lru {
				cfg.GetCollectionConfigVal.WorkerCount = 1
				cfg.SampleCache.KeptSize = 8
			}
			if !normalKeepsAll {
				cfg.GetSamplerTypeVal = &config.DeterministicSamplerConfig{SampleRate: 1 << 30}
			}
		}})
		if err != nil {
			t.Fatalf("harness: cluster did not start: %v", err)
		}
		defer cl.Close()
		stopped := false
		defer func() {
			if !stopped {
				cl.Stop()
			}
		}()
		honeyHost := cl.Honey.HostPort()

		// ---- workload
		keys := []string{e2KeyA, e2KeyB}
		datasets := []string{"c16-a", "c16 b"}
		spans := map[string]*c16Span{}
		type traceInfo struct {
			id      string
			key     string
			dataset string
			ids     [4][]string // span ids per phase
			rate2   bool        // first seen after the SamplingRate was changed by a reload
		}
		var traces []*traceInfo
		now := time.Now().UTC().Truncate(time.Millisecond)
		mk := func(tr *traceInfo, phase, n int, allowRoot bool) {
			for i := 0; i < n; i++ {
				id := fmt.Sprintf("%s/p%d-%d", tr.id, phase, i)
				sp := e2Span{ID: id, TraceID: tr.id, Time: now.Add(time.Duration(len(spans)) * time.Millisecond),
					SampleRate: verifkit.Pick(rng, 0, 1, 3),
					Fields:     map[string]any{"name": "op-" + rng.Hex(3), "dur": rng.Intn(1000), "ok": rng.Bool(), "ratio": float64(rng.Intn(100)) / 4}}
				if !(allowRoot && rng.Chance(0.3)) {
					sp.ParentID = "p" + rng.Hex(6)
				}
				spans[id] = &c16Span{span: sp, entry: rng.Intn(nNodes), phase: phase, key: tr.key, dataset: tr.dataset}
				tr.ids[phase] = append(tr.ids[phase], id)
			}
		}
		nTraces := rng.Range(30, 50)
		if lru {
			nTraces = 0 // the scripted sequence below is the stressed workload
		}
		for ti := 0; ti < nTraces; ti++ {
			tr := &traceInfo{id: fmt.Sprintf("c16-%d-%d-%s", ci, ti, rng.Hex(10)), key: verifkit.Pick(rng, keys...), dataset: verifkit.Pick(rng, datasets...)}
			mk(tr, 1, rng.Range(1, 3), true)
			if rng.Chance(0.5) {
				mk(tr, 2, rng.Range(1, 2), true)
			}
			if rng.Chance(0.6) {
				mk(tr, 3, rng.Range(1, 2), true)
			}
			traces = append(traces, tr)
		}
		var fresh []*traceInfo // first seen after relief: normal path, not judged here
		for ti := 0; ti < rng.Range(3, 8); ti++ {
			tr := &traceInfo{id: fmt.Sprintf("c16-%d-fresh%d-%s", ci, ti, rng.Hex(10)), key: verifkit.Pick(rng, keys...), dataset: verifkit.Pick(rng, datasets...)}
			mk(tr, 3, rng.Range(1, 3), true)
			fresh = append(fresh, tr)
		}
		_ = fresh

		postPhase := func(phase int) string {
			// batches: spans of this phase grouped by (entry, key, dataset), 1..6 per batch
			groups := map[string][]string{}
			var ids []string
			for id, s := range spans {
				if s.phase == phase && !s.manual {
					ids = append(ids, id)
				}
			}
			sort.Strings(ids)
			verifkit.Shuffle(rng, ids)
			for _, id := range ids {
				s := spans[id]
				g := fmt.Sprintf("%d|%s|%s", s.entry, s.key, s.dataset)
				groups[g] = append(groups[g], id)
			}
			type batch struct {
				node    int
				key, ds string
				spans   []e2Span
			}
			var bs []batch
			var gkeys []string
			for g := range groups {
				gkeys = append(gkeys, g)
			}
			sort.Strings(gkeys)
			for _, g := range gkeys {
				rest := groups[g]
				s0 := spans[rest[0]]
				for len(rest) > 0 {
					n := rng.Range(1, 6)
					if n > len(rest) {
						n = len(rest)
					}
					b := batch{node: s0.entry, key: s0.key, ds: s0.dataset}
					for _, id := range rest[:n] {
						b.spans = append(b.spans, spans[id].span)
					}
					bs = append(bs, b)
					rest = rest[n:]
				}
			}
			verifkit.Shuffle(rng, bs)
			work := make(chan batch, len(bs))
			for _, b := range bs {
				work <- b
			}
			close(work)
			var wg sync.WaitGroup
			var mu sync.Mutex
			failed := ""
			for w := 0; w < 3; w++ {
				wg.Add(1)
				go func() {
					defer wg.Done()
					for b := range work {
						res := cl.PostBatch(b.node, false, b.key, b.ds, b.spans)
						if !res.AllAccepted(len(b.spans)) {
							mu.Lock()
							failed = fmt.Sprintf("phase %d node %d: err=%v http=%d body=%s", phase, b.node, res.Err, res.HTTPStatus, res.Body)
							mu.Unlock()
						}
					}
				}()
			}
			wg.Wait()
			return failed
		}

		// ---- phases 1 and 2: stressed
		if err := cl.SetStress("always", rate); err != nil {
			t.Fatalf("harness: %v", err)
		}
		for phase := 1; phase <= 2; phase++ {
			// config reloads that resize the sample caches keep arriving while the stressed
			// spans (whose decisions are being recorded in those caches) are posted
			stopReloads := make(chan struct{})
			reloadsDone := make(chan struct{})
			go func() {
				defer close(reloadsDone)
				if lru {
					return
				}
				for k := 0; ; k++ {
					select {
					case <-stopReloads:
						return
					default:
					}
					for n := range cl.Nodes {
						cl.ReloadConfig(n, func(cfg *config.MockConfig) { cfg.SampleCache.KeptSize = uint(2000 + k%7) })
					}
					time.Sleep(300 * time.Microsecond)
				}
			}()
			f := postPhase(phase)
			close(stopReloads)
			<-reloadsDone
			if f != "" {
				run.Inconclusive("a batch was not accepted: " + f)
				return
			}
			if !cl.WaitPeerTrafficDrained() {
				run.Inconclusive("peer traffic did not drain while stressed")
				return
			}
		}
		// ---- scripted "lru" sequence (stratum 3), everything entering node 0, in order:
		// first spans of 3 long traces owned by node 0, 5 other traces, second spans of
		// the long traces, 5 other traces; their late spans follow after relief (phase 3)
		if lru {
			var long []*traceInfo
			for j := 0; len(long) < 3 && j < 10000; j++ {
				tid := fmt.Sprintf("c16-%d-long%d-%s", ci, j, rng.Hex(8))
				if o, _ := cl.OwnerOf(0, tid); o != 0 {
					continue
				}
				long = append(long, &traceInfo{id: tid, key: e2KeyA, dataset: "c16-a"})
			}
			one := func(tr *traceInfo, phase int, tag string) e2Span {
				id := fmt.Sprintf("%s/%s", tr.id, tag)
				sp := e2Span{ID: id, TraceID: tr.id, ParentID: "p" + rng.Hex(6), Time: now, Fields: map[string]any{"name": "lru-" + tag}}
				spans[id] = &c16Span{span: sp, entry: 0, phase: phase, key: tr.key, dataset: tr.dataset, manual: phase < 3}
				tr.ids[phase] = append(tr.ids[phase], id)
				return sp
			}
			postOne := func(tr *traceInfo, sp e2Span) bool {
				return cl.PostBatch(0, false, tr.key, tr.dataset, []e2Span{sp}).AllAccepted(1)
			}
			ok := true
			filler := func(n int, tag string) {
				for k := 0; k < n; k++ {
					tr := &traceInfo{id: fmt.Sprintf("c16-%d-fill-%s%d-%s", ci, tag, k, rng.Hex(8)), key: e2KeyA, dataset: "c16-a"}
					traces = append(traces, tr)
					ok = postOne(tr, one(tr, 1, "s0")) && ok
				}
			}
			for _, tr := range long {
				ok = postOne(tr, one(tr, 1, "first")) && ok
			}
			filler(5, "a")
			for _, tr := range long {
				ok = postOne(tr, one(tr, 2, "second")) && ok
			}
			filler(5, "b")
			for _, tr := range long {
				one(tr, 3, "late") // posted by postPhase(3) after relief ended
				traces = append(traces, tr)
			}
			if !ok || !cl.WaitPeerTrafficDrained() {
				run.Inconclusive("the scripted long-trace sequence was not accepted")
				return
			}
			run.Count("long_lived_stress_kept_traces", int64(len(long)))
		}
		// ---- first-use bursts (all strata but "lru"): K clients released together post
		// the first spans this node ever sends to a brand-new dataset
		stuckPeer := int64(0)
		if !lru {
			// a reload changes StressRelief.SamplingRate while relief stays active: traces
			// first seen from now on are decided with the new rate
			if err := cl.SetStress("always", rate2); err != nil {
				t.Fatalf("harness: %v", err)
			}
			rounds, k := 12, 8
			var burst []*traceInfo
			for r := 0; r < rounds; r++ {
				node := rng.Intn(nNodes)
				key := verifkit.Pick(rng, keys...)
				ds := fmt.Sprintf("c16-burst-%d-%d", ci, r)
				// every client first parks its request inside Router.batch (headers and half
				// of the body sent), then all bodies are completed at once: the handlers wake
				// up together and reach the transmission within microseconds of each other
				start := make(chan struct{})
				var wg sync.WaitGroup
				var mu sync.Mutex
				failed := false
				base := cl.Counter(node, "incoming_router_batch")
				var helds []*e2HeldRequest
				for g := 0; g < k; g++ {
					tr := &traceInfo{id: fmt.Sprintf("c16-%d-burst%d-%d-%s", ci, r, g, rng.Hex(8)), key: key, dataset: ds, rate2: true}
					id := tr.id + "/b"
					sp := e2Span{ID: id, TraceID: tr.id, Time: now, Fields: map[string]any{"name": "burst"}}
					spans[id] = &c16Span{span: sp, entry: node, phase: 2, key: key, dataset: ds, manual: true}
					tr.ids[2] = append(tr.ids[2], id)
					burst = append(burst, tr)
					h, err := cl.HoldBatch(node, key, ds, []e2Span{sp})
					if err != nil {
						run.Inconclusive("could not open a first-use burst request: " + err.Error())
						return
					}
					helds = append(helds, h)
				}
				if !cl.WaitFor(func() bool { return cl.Counter(node, "incoming_router_batch")-base >= int64(k) }) {
					run.Inconclusive("first-use burst requests did not reach the batch handler")
					return
				}
				for _, h := range helds {
					wg.Add(1)
					go func() {
						defer wg.Done()
						<-start
						if !h.Finish().AllAccepted(1) {
							mu.Lock()
							failed = true
							mu.Unlock()
						}
					}()
				}
				close(start)
				wg.Wait()
				if failed {
					run.Inconclusive("a first-use burst request was not accepted")
					return
				}
			}
			// The same burst without the HTTP layer in front, so that the goroutines are
			// really simultaneous: K goroutines released by a barrier call
			// Collector.ProcessSpanImmediately - what Router.processEvent calls from each
			// request goroutine while stressed - with the first spans for a new dataset.
			for r := 0; r < run.N(150, 50); r++ {
				node := rng.Intn(nNodes)
				n := cl.Nodes[node]
				key := verifkit.Pick(rng, keys...)
				ds := fmt.Sprintf("c16-direct-%d-%d", ci, r)
				start := make(chan struct{})
				var wg sync.WaitGroup
				for g := 0; g < k; g++ {
					tr := &traceInfo{id: fmt.Sprintf("c16-%d-direct%d-%d-%s", ci, r, g, rng.Hex(8)), key: key, dataset: ds, rate2: true}
					id := tr.id + "/d"
					sp := e2Span{ID: id, TraceID: tr.id, Time: now, Fields: map[string]any{"name": "direct"}}
					spans[id] = &c16Span{span: sp, entry: node, phase: 2, key: key, dataset: ds, manual: true}
					tr.ids[2] = append(tr.ids[2], id)
					burst = append(burst, tr)
					ev := &types.Event{Context: context.Background(), APIHost: cl.Honey.URL(), APIKey: key, Dataset: ds, Timestamp: now, Data: types.NewPayload(n.Cfg, sp.Data())}
					if err := ev.Data.ExtractMetadata(); err != nil {
						t.Fatalf("harness: %v", err)
					}
					span := &types.Span{Event: ev, TraceID: tr.id, IsRoot: true}
					wg.Add(1)
					go func() {
						defer wg.Done()
						<-start
						n.Collector.ProcessSpanImmediately(span)
					}()
				}
				close(start)
				wg.Wait()
			}
			traces = append(traces, burst...)
			// a probe orphaned in a peer transmission would keep this counter up for ever;
			// that is no concern of this property, later waits discount it
			deadline := time.Now().Add(5 * time.Second)
			for cl.Sum("libhoney_peer_queued_items") != 0 && time.Now().Before(deadline) {
				time.Sleep(2 * time.Millisecond)
			}
			stuckPeer = cl.Sum("libhoney_peer_queued_items")
			if stuckPeer < 0 {
				stuckPeer = 0
			}
			run.Count("first_use_burst_spans", int64(len(burst)))
		}
		stressCounters := cl.Snapshot("kept_from_stress", "dropped_from_stress", "trace_accepted", "incoming_router_peer", "peer_router_peer")
		if waitUpstreamBeforeRelief {
			// This wait only selects the schedule "relief ends after the upstream batches
			// went out". If the queues do not empty (events stuck in a transmission show
			// up as missing spans below) the case simply goes on with the other schedule.
			deadline := time.Now().Add(5 * time.Second)
			for cl.Sum("libhoney_upstream_queued_items") != 0 || cl.Sum("libhoney_peer_queued_items") > stuckPeer {
				if time.Now().After(deadline) {
					run.Count("upstream_drain_wait_gave_up", 1)
					break
				}
				time.Sleep(2 * time.Millisecond)
			}
		}
		// ---- relief ends
		if err := cl.SetStress("never", rate); err != nil {
			t.Fatalf("harness: %v", err)
		}
		base := cl.Snapshot("span_processed")
		nPhase3 := 0
		for _, s := range spans {
			if s.phase == 3 {
				nPhase3++
			}
		}
		if f := postPhase(3); f != "" {
			run.Inconclusive("a batch was not accepted: " + f)
			return
		}
		if !cl.WaitPeerTrafficDrainedTo(stuckPeer) {
			run.Inconclusive("peer traffic did not drain after relief")
			return
		}
		if !cl.WaitCollectorsIdle(base, int64(nPhase3)) {
			run.Inconclusive(fmt.Sprintf("collectors did not become idle after relief: processed %d of %d", cl.Sum("span_processed")-base["span_processed"], nPhase3))
			return
		}
		endCounters := cl.Snapshot("kept_from_stress", "dropped_from_stress", "trace_accepted", "trace_send_kept", "trace_send_dropped", "span_processed")
		if err := cl.Stop(); err != nil {
			run.Inconclusive("graceful stop failed: " + err.Error())
			return
		}
		stopped = true

		// ---- observations
		type seen struct {
			ev  verifkit.FlatEvent
			req *verifkit.HoneyRequest
		}
		at := map[string][]seen{}
		for _, ev := range cl.Honey.Events() {
			if p, has := ev.Data["meta.refinery.probe"]; has {
				if b, _ := verifkit.AsBool(p); b {
					run.Violation("C16/honeycomb/probe-forwarded-to-honeycomb", "an event carrying meta.refinery.probe=true was sent to Honeycomb",
						map[string]any{"id": e2EventID(ev.Data), "from_node": e2EventNode(ev.Data), "dataset": ev.Req.Dataset, "data": ev.Data})
				}
			}
			id := e2EventID(ev.Data)
			if _, ok := spans[id]; ok {
				at[id] = append(at[id], seen{ev, ev.Req})
			}
		}
		peerAddrs := map[string]int{}
		for _, n := range cl.Nodes {
			peerAddrs[n.PeerAddr] = n.Index
			peerAddrs[n.HTTPAddr] = n.Index
		}
		for _, w := range cl.WireRequests() {
			if w.Kind == "upstream" && strings.HasPrefix(w.Path, "/1/batch/") && w.Dest != honeyHost {
				to, isPeer := peerAddrs[w.Dest]
				var ids []string
				for _, ev := range w.Events {
					ids = append(ids, e2EventID(ev.Data))
				}
				run.Violation("C16/upstream-transmission/batch-sent-to-peer-address", "a node's upstream (Honeycomb) transmission sent a batch to a destination other than the configured Honeycomb API host",
					map[string]any{"from_node": w.Node, "dest": w.Dest, "dest_is_node": to, "dest_is_peer": isPeer, "honeycomb": honeyHost, "dataset": w.Dataset, "span_ids": ids})
			}
		}

		// ---- oracle per trace first seen under stress
		for _, tr := range traces {
			rate := rate
			if tr.rate2 {
				rate = rate2
			}
			keep := c16Keep(tr.id, rate)
			owner, _ := cl.OwnerOf(0, tr.id)
			onOwner, onOther := false, false
			for _, ph := range []int{1, 2} {
				for _, id := range tr.ids[ph] {
					if spans[id].entry == owner {
						onOwner = true
					} else {
						onOther = true
					}
				}
			}
			where := "non-owner-only"
			if onOwner && onOther {
				where = "owner-and-non-owner"
			} else if onOwner {
				where = "owner-only"
			}
			run.Nontrivial(fmt.Sprintf("rate=%d keep=%v where=%s later=%v late=%v", rate, keep, where, len(tr.ids[2]) > 0, len(tr.ids[3]) > 0))

			for _, ph := range []int{1, 2} {
				for _, id := range tr.ids[ph] {
					s := spans[id]
					got := at[id]
					w := map[string]any{"span": id, "trace": tr.id, "phase": ph, "entry": s.entry, "owner": owner, "rate": rate, "rule_keeps": keep,
						"batch_timeout": batchTimeout.String(), "max_batch": maxBatch, "arrivals": len(got)}
					if !keep {
						if len(got) > 0 {
							w["from_node"] = e2EventNode(got[0].ev.Data)
							w["data"] = got[0].ev.Data
							run.Violation("C16/stressed-dropped-span/forwarded-to-honeycomb", "a span of a trace the stress-relief rule drops reached Honeycomb", w)
						}
						continue
					}
					if len(got) == 0 {
						run.Violation("C16/stressed-kept-span/missing-at-honeycomb", "a span kept by the stress-relief rule never reached Honeycomb", w)
						continue
					}
					if len(got) > 1 {
						var from []int
						for _, g := range got {
							from = append(from, e2EventNode(g.ev.Data))
						}
						w["from_nodes"] = from
						run.Violation("C16/stressed-kept-span/duplicated-at-honeycomb", "a span kept by the stress-relief rule reached Honeycomb more than once", w)
					}
					for _, g := range got {
						w2 := e2CopyMap(w)
						w2["from_node"] = e2EventNode(g.ev.Data)
						w2["data"] = g.ev.Data
						if b, ok := verifkit.AsBool(g.ev.Data["meta.stressed"]); !ok || !b {
							run.Violation("C16/stressed-kept-span/not-marked-meta.stressed", "a span kept by the stress-relief rule arrived without meta.stressed=true (it went through the normal buffered path)", w2)
						}
						if g.req.APIKey != s.key {
							w2["got_key"], w2["want_key"] = g.req.APIKey, s.key
							run.Violation("C16/stressed-kept-span/api-key-changed", "a kept span arrived under another API key", w2)
						}
						if g.req.Dataset != s.dataset {
							w2["got_dataset"], w2["want_dataset"] = g.req.Dataset, s.dataset
							run.Violation("C16/stressed-kept-span/dataset-changed", "a kept span arrived in another dataset", w2)
						}
						posted := s.span.Data()
						for k, v := range posted {
							if !e2SameValue(v, g.ev.Data[k]) {
								w2["field"], w2["posted"], w2["got"] = k, v, g.ev.Data[k]
								run.Violation("C16/stressed-kept-span/field-changed", "a user field of a kept span changed on the way", w2)
							}
						}
						for k := range g.ev.Data {
							if _, ok := posted[k]; ok || strings.HasPrefix(k, "meta.") || k == e2NodeAttr {
								continue
							}
							w2["field"] = k
							run.Violation("C16/stressed-kept-span/field-added", "a kept span arrived with a non-meta field that was not posted", w2)
						}
					}
				}
			}
			// late spans after relief follow the remembered decision
			for _, id := range tr.ids[3] {
				s := spans[id]
				got := at[id]
				w := map[string]any{"span": id, "trace": tr.id, "entry": s.entry, "owner": owner, "rate": rate, "rule_keeps": keep,
					"stress_decision_made_on": where, "normal_sampler_keeps_all": normalKeepsAll, "arrivals": len(got)}
				switch {
				case keep && len(got) == 0:
					run.Violation("C16/late-span-after-relief/span-of-kept-trace-dropped/decided-on-"+where, "a late span of a trace kept under stress relief was not forwarded after relief ended", w)
				case keep && len(got) > 1:
					run.Violation("C16/late-span-after-relief/span-of-kept-trace-duplicated", "a late span of a trace kept under stress relief reached Honeycomb more than once", w)
				case !keep && len(got) > 0:
					w["data"] = got[0].ev.Data
					run.Violation("C16/late-span-after-relief/span-of-dropped-trace-forwarded/decided-on-"+where, "a late span of a trace dropped under stress relief was forwarded after relief ended", w)
				}
			}
		}
		// ---- not buffered: under stress no collector may have accepted a trace
		if stressCounters["trace_accepted"] != 0 {
			run.Violation("C16/stressed-span/buffered-in-collector", "a collector accepted (buffered) a trace while stress relief was active", stressCounters)
		}
		nStressed := 0
		for _, s := range spans {
			if s.phase < 3 {
				nStressed++
			}
		}
		run.Count("stressed_spans_posted", int64(nStressed))
		run.Count("late_spans_posted", int64(nPhase3))
		run.Count("events_at_honeycomb", int64(cl.Honey.EventCount()))
		if ci < 2 {
			run.Sample(map[string]any{"nodes": nNodes, "rate": rate, "batch_timeout": batchTimeout.String(), "max_batch": maxBatch, "normal_keeps_all": normalKeepsAll,
				"wait_upstream_before_relief": waitUpstreamBeforeRelief, "stress_counters": stressCounters, "end_counters": endCounters, "stressed_spans": nStressed, "late_spans": nPhase3})
		}
	})
}
