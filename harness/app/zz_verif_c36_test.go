//go:build verif

package app

// C36: on graceful shutdown Refinery stops accepting data, makes a decision
// for every trace still buffered and forwards the kept ones (README
// "Restarts": "all in-flight traces will be flushed (sent upstream to
// Honeycomb)"), flushes every pending outgoing batch, and exits without
// panicking or leaving background goroutines running.
//
// Engine E2 with one node. The shutdown is main.go's: close(done), then
// startstop.Stop over the whole object graph.

import (
	"fmt"
	"sort"
	"strings"
	"testing"
	"time"

	"github.com/honeycombio/refinery/config"
	"github.com/honeycombio/refinery/internal/verifkit"
)

func TestVerif_C36(t *testing.T) {
	run := verifkit.Start(t, "C36", "shutdown")
	defer run.Finish()
	run.Rule("a case = one single-node Refinery (PRNG: SendDelay 2ms|30s, BatchTimeout 10ms|30s, MaxBatchSize, workers; cases 0 and 1 mod 4 are fixed to short SendDelay + quiesced with long resp. short BatchTimeout; case 2 mod 4 has 30-45 root traces, SendDelay 800ms and Stop held at the collector's Health.Unregister until the workers decided them all), 8-20 traces (with or without root span) posted in sequential batches, and a graceful shutdown requested after a PRNG-chosen number of batches (0..all), with or without first letting the collector work through its queues; the remaining batches are posted during and after the shutdown. Non-trivial when spans acknowledged with 202 before the shutdown request existed; distinct = (SendDelay, BatchTimeout, quiesced, shutdown point, kinds of traces in memory)")
	run.Assume("the sampler keeps every trace (DeterministicSampler rate 1), so every span acknowledged before the shutdown request belongs to a kept trace")
	run.Assume("only spans whose 202 was received before shutdown was requested are required at Honeycomb; what is acknowledged during the shutdown is not judged")
	run.Assume("a goroutine counts as left running when it has a frame in, or was created by, a function of a /repo package and is still there after polling the goroutine dump to a fixpoint")

	run.Cases("shutdown", run.N(10, 500), func(ci int, rng *verifkit.Rand) {
		sendDelay := verifkit.Pick(rng, 2*time.Millisecond, 30*time.Second)
		batchTimeout := verifkit.Pick(rng, 10*time.Millisecond, 30*time.Second)
		maxBatch := verifkit.Pick(rng, 1, 7, 50, 500)
		workers := rng.Range(1, 3)
		quiesce := rng.Bool()
		reloadInterval := rng.Bool()
		switch ci % 4 { // two fixed strata so that every tier has shutdowns with decided traces
		case 0: // decided traces whose spans are still waiting in an upstream batch
			sendDelay, quiesce, batchTimeout = 2*time.Millisecond, true, 30*time.Second
		case 1: // decided traces already sent on
			sendDelay, quiesce, batchTimeout = 2*time.Millisecond, true, 10*time.Millisecond
		}
		// Third stratum: decisions that happen *during* Stop. Every trace has a root
		// span and SendDelay is long enough for the whole workload to be acknowledged
		// and for Stop to be under way before the first decision is due; the shutdown
		// is then held (e2HealthGate) where InMemCollector.Stop unregisters from
		// health - after it closed its done channel, before it stops its workers -
		// until the workers have decided every trace.
		window := ci%4 == 2
		if window {
			sendDelay, quiesce = 800*time.Millisecond, false
		}
		cl, err := e2Start(e2Options{Nodes: 1, HealthGate: window, Configure: func(_ int, cfg *config.MockConfig) {
			cfg.GetTracesConfigVal.SendDelay = config.Duration(sendDelay)
			cfg.GetTracesConfigVal.TraceTimeout = config.Duration(verifkit.Pick(rng, 60*time.Second, 300*time.Second))
			cfg.GetTracesConfigVal.BatchTimeout = config.Duration(batchTimeout)
			cfg.GetTracesConfigVal.MaxBatchSize = uint(maxBatch)
			cfg.GetTracesConfigVal.SendTicker = config.Duration(time.Duration(rng.Range(2, 10)) * time.Millisecond)
			cfg.GetCollectionConfigVal.WorkerCount = workers
			if reloadInterval {
				// starts the config watcher's monitor goroutine; it never fires within a case
				cfg.GetGeneralConfigVal.ConfigReloadInterval = config.Duration(time.Hour)
			}
		}})
		if err != nil {
			t.Fatalf("harness: node did not start: %v", err)
		}
		defer cl.Close()
		stopDone := false
		defer func() {
			if !stopDone {
				cl.Stop()
			}
		}()

		// ---- workload
		type traceInfo struct {
			id      string
			hasRoot bool
			spans   []e2Span
		}
		var traces []*traceInfo
		var all []e2Span
		now := time.Now().UTC().Truncate(time.Millisecond)
		nTraces := rng.Range(8, 20)
		if window {
			nTraces = rng.Range(30, 45)
		}
		for ti := 0; ti < nTraces; ti++ {
			tr := &traceInfo{id: fmt.Sprintf("c36-%d-%d-%s", ci, ti, rng.Hex(12)), hasRoot: rng.Chance(0.5) || window}
			k := rng.Range(1, 4)
			if window {
				k = rng.Range(1, 2)
			}
			rootPos := rng.Intn(k)
			for si := 0; si < k; si++ {
				sp := e2Span{ID: fmt.Sprintf("%s/s%d", tr.id, si), TraceID: tr.id, Time: now.Add(time.Duration(si) * time.Millisecond),
					SampleRate: verifkit.Pick(rng, 0, 1, 4), Fields: map[string]any{"n": si, "svc": "c36"}}
				if !(tr.hasRoot && si == rootPos) {
					sp.ParentID = "p" + rng.Hex(6)
				}
				tr.spans = append(tr.spans, sp)
				all = append(all, sp)
			}
			traces = append(traces, tr)
		}
		verifkit.Shuffle(rng, all)
		var batches [][]e2Span
		for rest := all; len(rest) > 0; {
			n := rng.Range(1, 6)
			if n > len(rest) {
				n = len(rest)
			}
			batches = append(batches, rest[:n])
			rest = rest[n:]
		}
		cut := verifkit.Pick(rng, 0, len(batches), rng.Intn(len(batches)+1), rng.Intn(len(batches)+1))
		dataset := verifkit.Pick(rng, "c36", "c36 ds/x")
		if window {
			cut = len(batches)
		}

		// ---- phase 1: batches acknowledged before the shutdown request
		acked := map[string]e2Span{}
		rootAcked := map[string]bool{}
		for _, b := range batches[:cut] {
			res := cl.PostBatch(0, false, e2KeyA, dataset, b)
			if !res.AllAccepted(len(b)) {
				run.Inconclusive(fmt.Sprintf("a batch was not accepted before shutdown: err=%v http=%d body=%s", res.Err, res.HTTPStatus, res.Body))
				return
			}
			for _, sp := range b {
				acked[sp.ID] = sp
				if sp.ParentID == "" {
					rootAcked[sp.TraceID] = true
				}
			}
		}
		decidable := 0 // traces whose decision is due before shutdown when the collector is left to work
		if sendDelay < time.Second {
			decidable = len(rootAcked)
		}
		if quiesce {
			ok := cl.WaitFor(func() bool {
				return cl.Sum("span_processed") >= int64(len(acked)) && cl.Sum("trace_send_kept", "trace_send_dropped") >= int64(decidable)
			})
			if !ok {
				run.Inconclusive("collector did not work through the acknowledged spans")
				return
			}
		}
		pre := cl.Snapshot("trace_accepted", "trace_send_kept", "trace_send_dropped", "span_processed", "libhoney_upstream_queued_items", "libhoney_upstream_messages_sent")

		// ---- shutdown, with the rest of the batches posted meanwhile
		duringDone := make(chan struct{})
		go func() {
			defer close(duringDone)
			for _, b := range batches[cut:] {
				cl.PostBatch(0, false, e2KeyA, dataset, b) // any outcome is allowed here
			}
		}()
		type stopResult struct {
			err      error
			panicked bool
		}
		stopCh := make(chan stopResult, 1)
		if window {
			cl.Nodes[0].HealthGate.Arm("collector")
			cl.DropIdleConnections()
		}
		go func() {
			err, p := cl.StopNode(0)
			stopCh <- stopResult{err, p}
		}()
		windowDecisions := int64(-1)
		if window {
			gate := cl.Nodes[0].HealthGate
			select {
			case <-gate.Parked():
				atPark := cl.Sum("trace_send_kept", "trace_send_dropped")
				all := cl.WaitFor(func() bool { return cl.Sum("trace_send_kept", "trace_send_dropped") >= int64(len(rootAcked)) })
				windowDecisions = cl.Sum("trace_send_kept", "trace_send_dropped") - atPark
				gate.Release()
				if !all {
					run.Inconclusive("the workers did not decide the buffered traces while Stop was held")
				}
			case <-time.After(e2PollBound):
				gate.Release()
				run.Inconclusive("Stop did not reach InMemCollector's Health.Unregister")
			}
		}
		var sr stopResult
		select {
		case sr = <-stopCh:
			stopDone = true
		case <-time.After(90 * time.Second):
			var dump []string
			for _, g := range e2AllGoroutines() {
				if g.Refinery != "" {
					dump = append(dump, fmt.Sprintf("%d [%s] %s", g.ID, g.State, strings.Join(g.Funcs, " <- ")))
				}
			}
			t.Logf("startstop.Stop still running after 90 s:\n%s", strings.Join(dump, "\n"))
			run.Inconclusive("startstop.Stop did not return within the watchdog bound")
			stopDone = true // do not try again
			return
		}
		<-duringDone
		if sr.panicked {
			run.Violation("C36/stop/panic", "graceful shutdown panicked", map[string]any{"error": sr.err.Error()})
		} else if sr.err != nil {
			run.Violation("C36/stop/error", "startstop.Stop returned an error", map[string]any{"error": sr.err.Error()})
		}

		// ---- after Stop returned
		post := cl.Snapshot("trace_accepted", "trace_send_kept", "trace_send_dropped", "span_processed", "libhoney_upstream_queued_items", "libhoney_upstream_messages_sent", "libhoney_upstream_response_20x")
		// (a) it no longer accepts data
		probe := e2Span{ID: fmt.Sprintf("c36-%d-afterstop", ci), TraceID: fmt.Sprintf("c36-%d-afterstop", ci), Time: now}
		for _, peerPort := range []bool{false, true} {
			if res := cl.PostBatch(0, peerPort, e2KeyA, dataset, []e2Span{probe}); res.Err == nil && res.HTTPStatus < 300 {
				run.Violation("C36/after-stop/still-accepting-data", "a batch posted after startstop.Stop returned was answered with success",
					map[string]any{"peer_port": peerPort, "http": res.HTTPStatus, "body": res.Body})
			}
		}
		// (b) every span acknowledged before the request is at Honeycomb
		got := map[string]int{}
		for _, ev := range cl.Honey.Events() {
			got[e2EventID(ev.Data)]++
		}
		tracesAtHoney := map[string]bool{}
		for _, ev := range cl.Honey.Events() {
			if tid, ok := verifkit.AsString(ev.Data["trace.trace_id"]); ok {
				tracesAtHoney[tid] = true
			}
		}
		var lostBuffered, lostDecided, lostKeptInWindow []string
		for id, sp := range acked {
			if got[id] > 0 {
				continue
			}
			if window && windowDecisions >= 0 && rootAcked[sp.TraceID] && post["trace_send_kept"] >= int64(len(rootAcked)) {
				lostKeptInWindow = append(lostKeptInWindow, id) // its trace was decided (kept) while Stop was held
			} else if rootAcked[sp.TraceID] && sendDelay < time.Second && quiesce {
				lostDecided = append(lostDecided, id) // its trace was decided and sent on before the request
			} else {
				lostBuffered = append(lostBuffered, id) // its trace was still in the collector's memory
			}
		}
		sort.Strings(lostBuffered)
		sort.Strings(lostDecided)
		pendingInTransmission := post["libhoney_upstream_queued_items"]
		ctx := map[string]any{
			"send_delay": sendDelay.String(), "batch_timeout": batchTimeout.String(), "max_batch": maxBatch, "workers": workers,
			"quiesced_before_shutdown": quiesce, "batches_before_shutdown": cut, "batches": len(batches),
			"acked_spans": len(acked), "seen_at_honeycomb": len(got), "metrics_before": pre, "metrics_after": post,
		}
		if pendingInTransmission != 0 {
			c2 := e2CopyMap(ctx)
			c2["lost_spans"] = append(append([]string{}, lostDecided...), lostBuffered...)
			run.Violation("C36/transmission-stop/pending-batch-not-flushed", "after Stop returned the upstream transmission still counts events as queued (libhoney_upstream_queued_items != 0)", c2)
		}
		if len(lostDecided) > 0 {
			c2 := e2CopyMap(ctx)
			c2["lost_spans"] = lostDecided
			run.Violation("C36/graceful-stop/span-of-decided-trace-lost", "a span acknowledged with 202 whose trace had been decided (kept) before the shutdown request is not at Honeycomb after Stop returned", c2)
		}
		// every decision counted as "kept" must have put its trace at Honeycomb
		// (undecided traces are not counted in trace_send_kept, so this is
		// independent of the buffered-trace finding)
		sort.Strings(lostKeptInWindow)
		if kept := post["trace_send_kept"]; kept > int64(len(tracesAtHoney)) || len(lostKeptInWindow) > 0 {
			c2 := e2CopyMap(ctx)
			c2["trace_send_kept"] = kept
			c2["distinct_traces_at_honeycomb"] = len(tracesAtHoney)
			c2["decisions_while_stop_was_held"] = windowDecisions
			c2["lost_spans"] = lostKeptInWindow
			run.Violation("C36/graceful-stop/kept-decision-not-forwarded", "more traces were decided 'keep' (trace_send_kept) than traces reached Honeycomb after Stop returned: a kept decision made before or during the shutdown was not forwarded", c2)
		}
		if len(lostBuffered) > 0 {
			c2 := e2CopyMap(ctx)
			c2["lost_spans"] = lostBuffered
			c2["undecided_traces_at_stop"] = post["trace_accepted"] - post["trace_send_kept"] - post["trace_send_dropped"]
			run.Violation("C36/collector-stop/buffered-trace-not-decided", "spans acknowledged with 202 before the shutdown request, of traces still buffered in the collector, are not at Honeycomb after Stop returned: the collector stopped without deciding its buffered traces", c2)
		}
		// (c) nothing is left running
		cl.Close()
		for _, g := range cl.LeftoverGoroutines() {
			who := g.Refinery
			run.Violation("C36/after-stop/goroutine-left/"+who, "a goroutine with Refinery frames is still alive after Stop returned",
				map[string]any{"goroutine": g, "config_reload_interval_set": reloadInterval})
		}

		run.Count("spans_acked_before_shutdown", int64(len(acked)))
		run.Count("spans_at_honeycomb", int64(len(got)))
		if windowDecisions > 0 {
			run.Count("decisions_while_stop_was_held", windowDecisions)
		}
		if len(acked) > 0 {
			buffered, decided := 0, 0
			for _, tr := range traces {
				n := 0
				for _, sp := range tr.spans {
					if _, ok := acked[sp.ID]; ok {
						n++
					}
				}
				if n == 0 {
					continue
				}
				if rootAcked[tr.id] && sendDelay < time.Second {
					decided++
				} else {
					buffered++
				}
			}
			point := "mid"
			if cut == len(batches) {
				point = "all"
			}
			run.Nontrivial(fmt.Sprintf("sd=%v bt=%v q=%v at=%s buffered=%v decided=%v window>=20:%v", sendDelay, batchTimeout, quiesce, point, buffered > 0, decided > 0, windowDecisions >= 20))
		}
		if ci < 2 {
			run.Sample(ctx)
		}
	})
}
