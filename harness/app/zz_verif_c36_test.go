//go:build verif

package app

// C36: on graceful shutdown Refinery stops accepting data, makes a decision
// for every trace still buffered and forwards the kept ones (README
// "Restarts": "all in-flight traces will be flushed (sent upstream to
// Honeycomb)"), flushes every pending outgoing batch, and exits without
// panicking or leaving background goroutines running.
//
// Engine E2 with one node. The shutdown is main.go's: close(done), then
// startstop.Stop over the whole object graph.

import (
	"fmt"
	"os"
	"sort"
	"strings"
	"sync"
	"testing"
	"time"

	"github.com/dgryski/go-wyhash"

	"github.com/honeycombio/refinery/config"
	"github.com/honeycombio/refinery/internal/verifkit"
)

func TestVerif_C36(t *testing.T) {
	run := verifkit.Start(t, "C36", "shutdown")
	defer run.Finish()
	run.Rule("a case = one single-node Refinery (PRNG: SendDelay 2ms|30s, BatchTimeout 10ms|30s, MaxBatchSize, workers; fixed strata by case index mod 6: 0/1 short SendDelay + quiesced with long/short BatchTimeout; 2 30-45 root traces, SendDelay 800ms, Stop held at the collector's Health.Unregister until the workers decided them all; 3 one to three config reloads (sample cache sizes, rules sampler, decoration toggles) confirmed per worker by sentinel traces; 4 two to four requests with half-sent bodies when shutdown is requested; 5 all PRNG), 8-20 traces (with or without root span) posted in sequential batches, and a graceful shutdown requested after a PRNG-chosen number of batches (0..all), with or without first letting the collector work through its queues; the remaining batches are posted during and after the shutdown. Non-trivial when spans acknowledged with 202 before the shutdown request existed; distinct = (SendDelay, BatchTimeout, quiesced, shutdown point, kinds of traces in memory)")
	run.Assume("the sampler keeps every trace (DeterministicSampler rate 1), so every span acknowledged before the shutdown request belongs to a kept trace")
	run.Assume("only spans whose 202 was received before shutdown was requested are required at Honeycomb; what is acknowledged during the shutdown is not judged")
	run.Assume("a goroutine counts as left running when it has a frame in, or was created by, a function of a /repo package and is still there after polling the goroutine dump to a fixpoint")

	run.Cases("shutdown", run.N(12, 504), func(ci int, rng *verifkit.Rand) {
		sendDelay := verifkit.Pick(rng, 2*time.Millisecond, 30*time.Second)
		batchTimeout := verifkit.Pick(rng, 10*time.Millisecond, 30*time.Second)
		maxBatch := verifkit.Pick(rng, 1, 7, 50, 500)
		workers := rng.Range(1, 3)
		quiesce := rng.Bool()
		reloadInterval := rng.Bool()
		reloadDuringStop := rng.Bool() // config reloads keep being delivered while Stop runs
		// Every other case uses a sampler of the dynamic family (they run a goroutine
		// inside dynsampler-go that Refinery has to stop), top-level or downstream of a
		// rule, configured so that it still keeps every trace (rate 1 / huge goal).
		dynKind, dynDownstream := "", false
		if ci%2 == 1 {
			dynKind, dynDownstream = verifkit.Pick(rng, "dynamic", "emadynamic", "emathroughput", "windowedthroughput", "totalthroughput"), rng.Bool()
			// no stray reloads in these cases, so that "a reload cleared the dynsamplers"
			// and "shutdown stopped them" stay two separate observations
			reloadDuringStop = false
		}
		isDynsamplerGoroutine := func(g e2Goroutine) bool {
			return strings.HasPrefix(g.CreatedBy, "github.com/honeycombio/dynsampler-go.")
		}
		// Fixed strata (case index mod 6), so that every tier has each kind of shutdown:
		//  0 decided traces whose spans still wait in an upstream batch
		//  1 decided traces already sent on
		//  2 "window": decisions that happen *during* Stop. Every trace has a root span
		//    and SendDelay is long enough for the whole workload to be acknowledged and
		//    for Stop to be under way before the first decision is due; the shutdown is
		//    then held (e2HealthGate) where InMemCollector.Stop unregisters from health
		//    - after it closed its done channel, before it stops its workers - until the
		//    workers have decided every trace
		//  3 "reload": 1-3 config reloads (sample cache sizes, sampler rules, decoration
		//    toggles) that every worker has provably processed, before the request
		//  4 "inflight": requests whose body is half sent when shutdown is requested
		//  5 everything PRNG-chosen
		stratum := ci % 6
		window, reload, inflight := stratum == 2, stratum == 3, stratum == 4
		switch stratum {
		case 0:
			sendDelay, quiesce, batchTimeout, maxBatch = 2*time.Millisecond, true, 30*time.Second, verifkit.Pick(rng, 50, 500)
		case 1:
			sendDelay, quiesce, batchTimeout = 2*time.Millisecond, true, 10*time.Millisecond
		case 2:
			sendDelay, quiesce = 800*time.Millisecond, false
		case 3:
			sendDelay, batchTimeout = 2*time.Millisecond, 10*time.Millisecond
		case 4:
			sendDelay, quiesce = 2*time.Millisecond, true
		}
		fmt.Fprintf(os.Stderr, "VERIF C36 seed=%d case=%d stratum=%d: starting\n", run.Seed(), ci, stratum)
		cl, err := e2Start(e2Options{Nodes: 1, HealthGate: window || inflight, Configure: func(_ int, cfg *config.MockConfig) {
			cfg.GetTracesConfigVal.SendDelay = config.Duration(sendDelay)
			cfg.GetTracesConfigVal.TraceTimeout = config.Duration(verifkit.Pick(rng, 60*time.Second, 300*time.Second))
			cfg.GetTracesConfigVal.BatchTimeout = config.Duration(batchTimeout)
			cfg.GetTracesConfigVal.MaxBatchSize = uint(maxBatch)
			cfg.GetTracesConfigVal.SendTicker = config.Duration(time.Duration(rng.Range(2, 10)) * time.Millisecond)
			cfg.GetCollectionConfigVal.WorkerCount = workers
			if dynKind != "" {
				fields := []string{"svc"}
				ds := &config.RulesBasedDownstreamSampler{}
				var top any
				switch dynKind {
				case "dynamic":
					c := &config.DynamicSamplerConfig{SampleRate: 1, ClearFrequency: config.Duration(30 * time.Second), FieldList: fields}
					ds.DynamicSampler, top = c, c
				case "emadynamic":
					c := &config.EMADynamicSamplerConfig{GoalSampleRate: 1, AdjustmentInterval: config.Duration(15 * time.Second), Weight: 0.5, FieldList: fields}
					ds.EMADynamicSampler, top = c, c
				case "emathroughput":
					c := &config.EMAThroughputSamplerConfig{GoalThroughputPerSec: 1000000, InitialSampleRate: 1, AdjustmentInterval: config.Duration(15 * time.Second), Weight: 0.5, FieldList: fields}
					ds.EMAThroughputSampler, top = c, c
				case "windowedthroughput":
					c := &config.WindowedThroughputSamplerConfig{GoalThroughputPerSec: 1000000, UpdateFrequency: config.Duration(time.Second), LookbackFrequency: config.Duration(30 * time.Second), FieldList: fields}
					ds.WindowedThroughputSampler, top = c, c
				case "totalthroughput":
					c := &config.TotalThroughputSamplerConfig{GoalThroughputPerSec: 1000000, ClearFrequency: config.Duration(30 * time.Second), FieldList: fields}
					ds.TotalThroughputSampler, top = c, c
				}
				if dynDownstream {
					cfg.GetSamplerTypeVal = &config.RulesBasedSamplerConfig{Rules: []*config.RulesBasedSamplerRule{{Name: "verif-dyn", Sampler: ds}}}
				} else {
					cfg.GetSamplerTypeVal = top
				}
			}
			if reloadInterval {
				// starts the config watcher's monitor goroutine; it never fires within a case
				cfg.GetGeneralConfigVal.ConfigReloadInterval = config.Duration(time.Hour)
			}
		}})
		if err != nil {
			t.Fatalf("harness: node did not start: %v", err)
		}
		defer cl.Close()
		stopDone := false
		defer func() {
			if !stopDone {
				cl.Stop()
			}
		}()

		// ---- workload
		type traceInfo struct {
			id      string
			hasRoot bool
			spans   []e2Span
		}
		var traces []*traceInfo
		var all []e2Span
		now := time.Now().UTC().Truncate(time.Millisecond)
		nTraces := rng.Range(8, 20)
		if window {
			nTraces = rng.Range(30, 45)
		}
		for ti := 0; ti < nTraces; ti++ {
			tr := &traceInfo{id: fmt.Sprintf("c36-%d-%d-%s", ci, ti, rng.Hex(12)), hasRoot: rng.Chance(0.5) || window}
			k := rng.Range(1, 4)
			if window {
				k = rng.Range(1, 2)
			}
			rootPos := rng.Intn(k)
			for si := 0; si < k; si++ {
				sp := e2Span{ID: fmt.Sprintf("%s/s%d", tr.id, si), TraceID: tr.id, Time: now.Add(time.Duration(si) * time.Millisecond),
					SampleRate: verifkit.Pick(rng, 0, 1, 4), Fields: map[string]any{"n": si, "svc": "c36"}}
				if !(tr.hasRoot && si == rootPos) {
					sp.ParentID = "p" + rng.Hex(6)
				}
				tr.spans = append(tr.spans, sp)
				all = append(all, sp)
			}
			traces = append(traces, tr)
		}
		verifkit.Shuffle(rng, all)
		var batches [][]e2Span
		for rest := all; len(rest) > 0; {
			n := rng.Range(1, 6)
			if n > len(rest) {
				n = len(rest)
			}
			batches = append(batches, rest[:n])
			rest = rest[n:]
		}
		cut := verifkit.Pick(rng, 0, len(batches), rng.Intn(len(batches)+1), rng.Intn(len(batches)+1))
		dataset := verifkit.Pick(rng, "c36", "c36 ds/x")
		// the ordinary batches go to several destinations (API key x dataset), so that
		// more than one partially filled upstream batch can be pending when Stop runs
		type dest struct{ key, ds string }
		batchDest := make([]dest, len(batches))
		for i := range batchDest {
			batchDest[i] = dest{verifkit.Pick(rng, e2KeyA, e2KeyB), verifkit.Pick(rng, dataset, dataset+"-2", dataset+"-3")}
		}
		if window || inflight {
			cut = len(batches)
		}

		// ---- phase 1: batches acknowledged before the shutdown request
		acked := map[string]e2Span{}
		rootAcked := map[string]bool{}
		for bi, b := range batches[:cut] {
			res := cl.PostBatch(0, false, batchDest[bi].key, batchDest[bi].ds, b)
			if !res.AllAccepted(len(b)) {
				run.Inconclusive(fmt.Sprintf("a batch was not accepted before shutdown: err=%v http=%d body=%s", res.Err, res.HTTPStatus, res.Body))
				return
			}
			for _, sp := range b {
				acked[sp.ID] = sp
				if sp.ParentID == "" {
					rootAcked[sp.TraceID] = true
				}
			}
		}
		// ---- stratum "reload": config reloads that every worker has processed
		reloads := 0
		if reload {
			// one root-span sentinel trace per worker (worker = wyhash(traceID, seed) % workers,
			// restated from collect.getWorkerIDForTrace; if that ever changes the sentinels
			// still work, they merely stop covering every worker)
			sentinelRound := 0
			sentinels := func() []e2Span {
				sentinelRound++
				var out []e2Span
				have := map[uint64]bool{}
				for j := 0; len(out) < workers && j < 10000; j++ {
					tid := fmt.Sprintf("c36-%d-sentinel-%d-%d", ci, sentinelRound, j)
					w := wyhash.Hash([]byte(tid), 7215963184435617557) % uint64(workers)
					if have[w] {
						continue
					}
					have[w] = true
					out = append(out, e2Span{ID: tid + "/root", TraceID: tid, Time: now, Fields: map[string]any{"svc": "c36-sentinel"}})
				}
				return out
			}
			// posts one sentinel round and returns the meta.refinery.reason each was decided with
			decideSentinels := func() ([]string, bool) {
				sp := sentinels()
				if res := cl.PostBatch(0, false, e2KeyA, dataset, sp); !res.AllAccepted(len(sp)) {
					return nil, false
				}
				for _, x := range sp {
					acked[x.ID] = x
					rootAcked[x.TraceID] = true
				}
				reasons := map[string]string{}
				ok := cl.WaitFor(func() bool {
					for _, ev := range cl.Honey.Events() {
						id := e2EventID(ev.Data)
						if strings.Contains(id, fmt.Sprintf("c36-%d-sentinel-%d-", ci, sentinelRound)) {
							r, _ := verifkit.AsString(ev.Data["meta.refinery.reason"])
							reasons[id] = r
						}
					}
					return len(reasons) >= len(sp)
				})
				var out []string
				for _, r := range reasons {
					out = append(out, r)
				}
				return out, ok
			}
			if _, ok := decideSentinels(); !ok { // every worker now has its sampler cached
				run.Inconclusive("sentinel traces were not decided before the first reload")
				return
			}
			nReloads := rng.Range(1, 3)
			for k := 1; k <= nReloads; k++ {
				rule := fmt.Sprintf("verif-c%d-r%d", ci, k)
				kept, dropped, interval := uint(rng.Range(300, 3000)+k), uint(rng.Range(5000, 30000)+k), time.Duration(rng.Range(3, 30))*time.Second
				hostMeta, countRoot := rng.Bool(), rng.Bool()
				fmt.Fprintf(os.Stderr, "VERIF C36 seed=%d case=%d: reload %d\n", run.Seed(), ci, k)
				cl.ReloadConfig(0, func(cfg *config.MockConfig) {
					cfg.SampleCache = config.SampleCacheConfig{KeptSize: kept, DroppedSize: dropped, SizeCheckInterval: config.Duration(interval)}
					cfg.GetSamplerTypeVal = &config.RulesBasedSamplerConfig{Rules: []*config.RulesBasedSamplerRule{{Name: rule, SampleRate: 1}}}
					cfg.AddHostMetadataToTrace = hostMeta
					cfg.AddSpanCountToRoot = countRoot
				})
				// a sentinel decided with the new rule proves that its worker cleared its
				// samplers, i.e. took the reload signal, and (same select case, same
				// goroutine) finished resizing its sample cache
				done := false
				for round := 0; round < 60 && !done; round++ {
					reasons, ok := decideSentinels()
					if !ok {
						break
					}
					done = true
					for _, r := range reasons {
						if r != "rules/trace/"+rule {
							done = false
						}
					}
				}
				if !done {
					run.Inconclusive("the workers did not pick up reload " + rule)
					return
				}
				reloads++
				// the reload replaced the sampler by a plain rules sampler: the dynsamplers of
				// the previous configuration must have been stopped by it
				if left := cl.LeftoverGoroutinesWhere(isDynsamplerGoroutine); len(left) > 0 && k == 1 {
					run.Violation("C36/graceful-stop/goroutine-left-running/dynsampler", "a config reload replaced the sampler, but the goroutine dynsampler-go runs for the previous sampler is still alive",
						map[string]any{"goroutines": left, "sampler": dynKind, "downstream_of_rule": dynDownstream, "after_reload": k})
				}
			}
		}
		decidable := 0 // traces whose decision is due before shutdown when the collector is left to work
		if sendDelay < time.Second {
			decidable = len(rootAcked)
		}
		if quiesce {
			ok := cl.WaitFor(func() bool {
				return cl.Sum("span_processed") >= int64(len(acked)) && cl.Sum("trace_send_kept", "trace_send_dropped") >= int64(decidable)
			})
			if !ok {
				run.Inconclusive("collector did not work through the acknowledged spans")
				return
			}
		}
		pre := cl.Snapshot("trace_accepted", "trace_send_kept", "trace_send_dropped", "span_processed", "libhoney_upstream_queued_items", "libhoney_upstream_messages_sent")

		// ---- stratum "inflight": requests whose body is half sent when shutdown is requested
		var held []*e2HeldRequest
		if inflight {
			base := cl.Sum("incoming_router_batch")
			for h := 0; h < rng.Range(2, 4); h++ {
				var sp []e2Span
				for k := 0; k < rng.Range(1, 3); k++ {
					tid := fmt.Sprintf("c36-%d-held%d-%d-%s", ci, h, k, rng.Hex(8))
					sp = append(sp, e2Span{ID: tid + "/root", TraceID: tid, Time: now, Fields: map[string]any{"svc": "c36-held", "pad": strings.Repeat("x", rng.Range(10, 400))}})
				}
				hr, err := cl.HoldBatch(0, e2KeyA, dataset, sp)
				if err != nil {
					run.Inconclusive("could not open an in-flight request: " + err.Error())
					return
				}
				held = append(held, hr)
			}
			// every held request is inside Router.batch (the counter is incremented on entry)
			if !cl.WaitFor(func() bool { return cl.Sum("incoming_router_batch")-base >= int64(len(held)) }) {
				run.Inconclusive("the in-flight requests did not reach the batch handler")
				return
			}
		}

		// ---- shutdown, with the rest of the batches posted meanwhile
		duringDone := make(chan struct{})
		go func() {
			defer close(duringDone)
			for bi, b := range batches[cut:] {
				cl.PostBatch(0, false, batchDest[cut+bi].key, batchDest[cut+bi].ds, b) // any outcome is allowed here
			}
		}()
		type stopResult struct {
			err      error
			panicked bool
		}
		var sr stopResult
		var srMu sync.Mutex
		stopReturned := make(chan struct{})
		if window || inflight {
			cl.Nodes[0].HealthGate.Arm("collector")
			cl.DropIdleConnections()
		}
		// Stratum 0: Honeycomb rate-limits each destination once the shutdown is requested:
		// 429 + "Retry-After: 1", and it keeps refusing that destination until the second
		// is over (the fake's behaviour, not an oracle). The pending batches flushed by
		// Stop meet this and must still be delivered.
		if stratum == 0 {
			var rlMu sync.Mutex
			refuseUntil := map[string]time.Time{}
			cl.Honey.SetResponder(func(r *verifkit.HoneyRequest) *verifkit.HoneyResponse {
				if !r.IsBatch {
					return nil
				}
				rlMu.Lock()
				defer rlMu.Unlock()
				k := r.APIKey + "|" + r.Dataset
				until, seen := refuseUntil[k]
				if !seen {
					until = time.Now().Add(time.Second)
					refuseUntil[k] = until
				}
				if time.Now().Before(until) {
					return &verifkit.HoneyResponse{Status: 429, Header: map[string]string{"Retry-After": "1"}, Raw: []byte(`{"error":"rate limited"}`)}
				}
				return nil
			})
		}
		fmt.Fprintf(os.Stderr, "VERIF C36 seed=%d case=%d: requesting shutdown\n", run.Seed(), ci)
		// A config reload can be delivered at any time (watcher tick, message from a
		// peer, a Reload already in progress), also while or after the components stop.
		// deliverReload runs the registered reload callbacks like a reload does and
		// reports a panic of the reloading goroutine instead of dying with it.
		deliverReload := func() (panicked string) {
			defer func() {
				if r := recover(); r != nil {
					panicked = fmt.Sprint(r)
				}
			}()
			cl.ReloadConfig(0, func(cfg *config.MockConfig) { cfg.CfgHash = fmt.Sprintf("verif-%d", time.Now().UnixNano()) })
			return ""
		}
		reloadPanic := ""
		reloadsDuringStop := 0
		reloaderDone := make(chan struct{})
		go func() {
			defer close(reloaderDone)
			if !reloadDuringStop {
				return
			}
			for reloadPanic == "" {
				select {
				case <-stopReturned:
					return
				default:
				}
				reloadPanic = deliverReload()
				reloadsDuringStop++
				time.Sleep(200 * time.Microsecond)
			}
		}()
		go func() {
			err, p := cl.StopNode(0)
			srMu.Lock()
			sr = stopResult{err, p}
			srMu.Unlock()
			close(stopReturned)
		}()
		isClosed := func(ch <-chan struct{}) bool {
			select {
			case <-ch:
				return true
			default:
				return false
			}
		}
		windowDecisions := int64(-1)
		heldResults := make([]e2PostResult, len(held))
		heldState := "" // how far the shutdown had got while the requests were still incomplete
		heldDecided := false
		if inflight {
			gate := cl.Nodes[0].HealthGate
			// The requests are completed once the incoming router is provably waiting for
			// them: its listener is closed and the stopping goroutine sits in
			// http.Server.Shutdown called from Router.Stop (read from the goroutine dump,
			// a synchronisation aid only). A shutdown that gets past the routers (the
			// collector starts stopping, or Stop returns) first is what is being looked for.
			ok := cl.WaitFor(func() bool {
				if isClosed(stopReturned) {
					heldState = "startstop.Stop returned"
					return true
				}
				if isClosed(gate.Parked()) {
					heldState = "InMemCollector.Stop was under way"
					return true
				}
				if !cl.ListenerClosed(0) {
					return false
				}
				for _, g := range e2AllGoroutines() {
					for i := 0; i+1 < len(g.Funcs); i++ {
						if g.Funcs[i] == "net/http.(*Server).Shutdown" && g.Funcs[i+1] == "github.com/honeycombio/refinery/route.(*Router).Stop" {
							return true
						}
					}
				}
				return false
			})
			if !ok {
				run.Inconclusive("could not tell how far the shutdown got while requests were in flight")
			}
			for i, h := range held {
				heldResults[i] = h.Finish()
			}
			want := int64(len(rootAcked))
			for i, h := range held {
				if heldResults[i].AllAccepted(len(h.Spans)) {
					want += int64(len(h.Spans))
				}
			}
			select {
			case <-gate.Parked():
				heldDecided = cl.WaitFor(func() bool { return cl.Sum("trace_send_kept", "trace_send_dropped") >= want })
				gate.Release()
			case <-stopReturned:
				gate.Release()
			case <-time.After(e2PollBound):
				gate.Release()
				run.Inconclusive("Stop did not reach InMemCollector's Health.Unregister")
			}
		}
		if window {
			gate := cl.Nodes[0].HealthGate
			select {
			case <-gate.Parked():
				atPark := cl.Sum("trace_send_kept", "trace_send_dropped")
				all := cl.WaitFor(func() bool { return cl.Sum("trace_send_kept", "trace_send_dropped") >= int64(len(rootAcked)) })
				windowDecisions = cl.Sum("trace_send_kept", "trace_send_dropped") - atPark
				gate.Release()
				if !all {
					run.Inconclusive("the workers did not decide the buffered traces while Stop was held")
				}
			case <-time.After(e2PollBound):
				gate.Release()
				run.Inconclusive("Stop did not reach InMemCollector's Health.Unregister")
			}
		}
		select {
		case <-stopReturned:
			stopDone = true
			srMu.Lock()
			srMu.Unlock()
		case <-time.After(90 * time.Second):
			var dump []string
			for _, g := range e2AllGoroutines() {
				if g.Refinery != "" {
					dump = append(dump, fmt.Sprintf("%d [%s] %s", g.ID, g.State, strings.Join(g.Funcs, " <- ")))
				}
			}
			t.Logf("startstop.Stop still running after 90 s:\n%s", strings.Join(dump, "\n"))
			run.Inconclusive("startstop.Stop did not return within the watchdog bound")
			stopDone = true // do not try again
			return
		}
		<-duringDone
		if sr.panicked {
			run.Violation("C36/stop/panic", "graceful shutdown panicked", map[string]any{"error": sr.err.Error()})
		} else if sr.err != nil {
			run.Violation("C36/stop/error", "startstop.Stop returned an error", map[string]any{"error": sr.err.Error()})
		}

		// ---- after Stop returned
		post := cl.Snapshot("trace_accepted", "trace_send_kept", "trace_send_dropped", "span_processed", "libhoney_upstream_queued_items", "libhoney_upstream_messages_sent", "libhoney_upstream_response_20x")
		// (a0) a reload delivered while the node was stopping, or now that it has stopped,
		// must not blow up
		<-reloaderDone
		if reloadPanic != "" {
			run.Violation("C36/stop/reload-delivered-during-shutdown-panicked", "a config reload callback panicked while graceful shutdown was in progress",
				map[string]any{"panic": reloadPanic, "reloads_delivered": reloadsDuringStop})
		}
		if p := deliverReload(); p != "" {
			run.Violation("C36/after-stop/reload-delivered-after-shutdown-panicked", "a config reload callback panicked after startstop.Stop had returned",
				map[string]any{"panic": p})
		}
		run.Count("reloads_delivered_during_stop", int64(reloadsDuringStop))
		// (a) it no longer accepts data
		probe := e2Span{ID: fmt.Sprintf("c36-%d-afterstop", ci), TraceID: fmt.Sprintf("c36-%d-afterstop", ci), Time: now}
		for _, peerPort := range []bool{false, true} {
			if res := cl.PostBatch(0, peerPort, e2KeyA, dataset, []e2Span{probe}); res.Err == nil && res.HTTPStatus < 300 {
				run.Violation("C36/after-stop/still-accepting-data", "a batch posted after startstop.Stop returned was answered with success",
					map[string]any{"peer_port": peerPort, "http": res.HTTPStatus, "body": res.Body})
			}
		}
		// (b) every span acknowledged before the request is at Honeycomb
		got := map[string]int{}
		for _, ev := range cl.Honey.Events() {
			if ev.Req.Status != 200 {
				continue // refused by the (rate limiting) fake: not delivered
			}
			got[e2EventID(ev.Data)]++
		}
		refused := 0
		for _, r := range cl.Honey.Requests() {
			if r.IsBatch && r.Status == 429 {
				refused++
			}
		}
		run.Count("batches_refused_with_429_during_shutdown", int64(refused))
		for id, n := range got {
			if _, mine := acked[id]; mine && n > 1 {
				run.Violation("C36/graceful-stop/span-forwarded-more-than-once", "a span acknowledged before the shutdown request was delivered to Honeycomb more than once",
					map[string]any{"span": id, "deliveries": n, "batch_timeout": batchTimeout.String(), "stratum": stratum})
			}
		}
		tracesAtHoney := map[string]bool{}
		for _, ev := range cl.Honey.Events() {
			if ev.Req.Status != 200 {
				continue
			}
			if tid, ok := verifkit.AsString(ev.Data["trace.trace_id"]); ok {
				tracesAtHoney[tid] = true
			}
		}
		var lostBuffered, lostDecided, lostKeptInWindow []string
		for id, sp := range acked {
			if got[id] > 0 {
				continue
			}
			if window && windowDecisions >= 0 && rootAcked[sp.TraceID] && post["trace_send_kept"] >= int64(len(rootAcked)) {
				lostKeptInWindow = append(lostKeptInWindow, id) // its trace was decided (kept) while Stop was held
			} else if rootAcked[sp.TraceID] && sendDelay < time.Second && quiesce {
				lostDecided = append(lostDecided, id) // its trace was decided and sent on before the request
			} else {
				lostBuffered = append(lostBuffered, id) // its trace was still in the collector's memory
			}
		}
		sort.Strings(lostBuffered)
		sort.Strings(lostDecided)
		pendingInTransmission := post["libhoney_upstream_queued_items"]
		ctx := map[string]any{
			"send_delay": sendDelay.String(), "batch_timeout": batchTimeout.String(), "max_batch": maxBatch, "workers": workers,
			"quiesced_before_shutdown": quiesce, "batches_before_shutdown": cut, "batches": len(batches),
			"acked_spans": len(acked), "seen_at_honeycomb": len(got), "metrics_before": pre, "metrics_after": post,
		}
		if pendingInTransmission != 0 {
			c2 := e2CopyMap(ctx)
			c2["lost_spans"] = append(append([]string{}, lostDecided...), lostBuffered...)
			run.Violation("C36/transmission-stop/pending-batch-not-flushed", "after Stop returned the upstream transmission still counts events as queued (libhoney_upstream_queued_items != 0)", c2)
		}
		if len(lostDecided) > 0 {
			c2 := e2CopyMap(ctx)
			c2["lost_spans"] = lostDecided
			run.Violation("C36/graceful-stop/span-of-decided-trace-lost", "a span acknowledged with 202 whose trace had been decided (kept) before the shutdown request is not at Honeycomb after Stop returned", c2)
		}
		// every decision counted as "kept" must have put its trace at Honeycomb
		// (undecided traces are not counted in trace_send_kept, so this is
		// independent of the buffered-trace finding)
		sort.Strings(lostKeptInWindow)
		if kept := post["trace_send_kept"]; kept > int64(len(tracesAtHoney)) || len(lostKeptInWindow) > 0 {
			c2 := e2CopyMap(ctx)
			c2["trace_send_kept"] = kept
			c2["distinct_traces_at_honeycomb"] = len(tracesAtHoney)
			c2["decisions_while_stop_was_held"] = windowDecisions
			c2["lost_spans"] = lostKeptInWindow
			run.Violation("C36/graceful-stop/kept-decision-not-forwarded", "more traces were decided 'keep' (trace_send_kept) than traces reached Honeycomb after Stop returned: a kept decision made before or during the shutdown was not forwarded", c2)
		}
		if len(lostBuffered) > 0 {
			c2 := e2CopyMap(ctx)
			c2["lost_spans"] = lostBuffered
			c2["undecided_traces_at_stop"] = post["trace_accepted"] - post["trace_send_kept"] - post["trace_send_dropped"]
			run.Violation("C36/collector-stop/buffered-trace-not-decided", "spans acknowledged with 202 before the shutdown request, of traces still buffered in the collector, are not at Honeycomb after Stop returned: the collector stopped without deciding its buffered traces", c2)
		}
		// (b') requests that were in flight when shutdown was requested
		for i, h := range held {
			res := heldResults[i]
			w := e2CopyMap(ctx)
			w["request"] = i
			w["http_status"], w["body"] = res.HTTPStatus, res.Body
			if res.Err != nil {
				w["error"] = res.Err.Error()
			}
			if heldState != "" && res.Err == nil {
				w["shutdown_progress"] = heldState
				run.Violation("C36/after-stop/request-still-being-handled", "the shutdown went past the routers while a request was still in flight in a Refinery handler, and the request was answered afterwards", w)
			}
			accepted := res.AllAccepted(len(h.Spans))
			for k, sp := range h.Spans {
				ok202 := accepted || (res.Err == nil && k < len(res.Statuses) && res.Statuses[k] == 202)
				w2 := e2CopyMap(w)
				w2["span"] = sp.ID
				switch {
				case ok202 && got[sp.ID] == 0 && heldDecided:
					run.Violation("C36/graceful-stop/acknowledged-in-flight-span-lost", "a span of a request that was in flight when shutdown was requested was acknowledged with 202, its trace was decided, and it is not at Honeycomb after Stop returned", w2)
				case !ok202 && got[sp.ID] > 0:
					run.Violation("C36/graceful-stop/refused-in-flight-span-forwarded", "a span of an in-flight request that was answered with an error reached Honeycomb", w2)
				}
			}
		}
		// (c) nothing is left running
		cl.Close()
		for _, g := range cl.LeftoverGoroutines() {
			who := g.Refinery
			run.Violation("C36/after-stop/goroutine-left/"+who, "a goroutine with Refinery frames is still alive after Stop returned",
				map[string]any{"goroutine": g, "config_reload_interval_set": reloadInterval})
		}

		// (c') nor a goroutine Refinery started inside dynsampler-go for a dynamic sampler
		dynLeft := cl.LeftoverGoroutinesWhere(isDynsamplerGoroutine)
		if len(dynLeft) > 0 && reloads == 0 {
			run.Violation("C36/graceful-stop/goroutine-left-running/dynsampler-not-stopped-at-shutdown", "a goroutine started by dynsampler-go for one of this node's samplers is still running after Stop returned (no reload was delivered in this case)",
				map[string]any{"goroutines": dynLeft, "sampler": dynKind, "downstream_of_rule": dynDownstream, "reloads": reloads, "stratum": stratum, "trace_send_kept": post["trace_send_kept"]})
		}
		run.Count("spans_acked_before_shutdown", int64(len(acked)))
		run.Count("spans_at_honeycomb", int64(len(got)))
		if windowDecisions > 0 {
			run.Count("decisions_while_stop_was_held", windowDecisions)
		}
		if len(acked) > 0 {
			buffered, decided := 0, 0
			for _, tr := range traces {
				n := 0
				for _, sp := range tr.spans {
					if _, ok := acked[sp.ID]; ok {
						n++
					}
				}
				if n == 0 {
					continue
				}
				if rootAcked[tr.id] && sendDelay < time.Second {
					decided++
				} else {
					buffered++
				}
			}
			point := "mid"
			if cut == len(batches) {
				point = "all"
			}
			run.Nontrivial(fmt.Sprintf("sd=%v bt=%v q=%v at=%s buffered=%v decided=%v window>=20:%v reloads=%d held=%v dyn=%s/%v", sendDelay, batchTimeout, quiesce, point, buffered > 0, decided > 0, windowDecisions >= 20, reloads, len(held) > 0, dynKind, dynDownstream))
		}
		if ci < 2 {
			run.Sample(ctx)
		}
	})
}
