//go:build verif

package app

// Property C35: Refinery's concurrent components never read and write shared
// memory without synchronization. Oracle: the Go race detector (happens-before,
// not timing) over storms run by engine E6 (zz_verif_c35_storm_test.go).
//
// The parent test generates one storm specification per case from the PRNG and
// runs each storm in a child process (the test binary re-executed, the runner's
// GORACE inherited so the reports land in run.OutDir()/race.<unit>.<pid>): a
// storm that crashes or hangs costs that storm only, and the race detector's
// per-process suppression of duplicate reports does not hide a race from later
// storms. After each storm the parent parses the new race log files.

import (
	"encoding/json"
	"fmt"
	"os"
	"path/filepath"
	"regexp"
	"sort"
	"strings"
	"testing"
	"time"

	"github.com/honeycombio/refinery/internal/verifkit"
)

const (
	c35Unit       = "storms"
	c35ModulePath = "github.com/honeycombio/refinery/"
	// WAL index offset of the child's "cluster is up" marker
	c35StartedMark = 1000000
)

// ---------------------------------------------------------------------------
// race report parsing

type c35Frame struct {
	Func string `json:"func"`
	File string `json:"file"`
	Line string `json:"line"`
}

// refinery reports whether the frame is Refinery code proper: a function of a
// package of the module, in a file that is neither a test file nor harness.
func (f c35Frame) refinery() bool {
	if !strings.HasPrefix(f.Func, c35ModulePath) {
		return false
	}
	if strings.HasPrefix(f.Func, c35ModulePath+"internal/verifkit") {
		return false
	}
	base := filepath.Base(f.File)
	return !strings.HasPrefix(base, "zz_verif_") && !strings.HasSuffix(base, "_test.go")
}

func (f c35Frame) harness() bool {
	base := filepath.Base(f.File)
	return strings.HasPrefix(base, "zz_verif_") || strings.Contains(f.Func, "internal/verifkit")
}

type c35Access struct {
	Header     string     `json:"header"` // "Write at 0x... by goroutine 8:" with the address removed
	Frames     []c35Frame `json:"frames"` // innermost first
	Unrestored bool       `json:"unrestored,omitempty"`
}

// innermost returns the innermost Refinery function of the access, "" if none.
func (a c35Access) innermost() string {
	for _, f := range a.Frames {
		if f.refinery() {
			return c35ShortFunc(f.Func)
		}
	}
	return ""
}

// entry returns the outermost Refinery function of the access's stack (the
// goroutine's Refinery entry point as far as the stack shows it).
func (a c35Access) entry() string {
	e := ""
	for _, f := range a.Frames {
		if f.refinery() {
			e = c35ShortFunc(f.Func)
		}
	}
	return e
}

func (a c35Access) hasHarness() bool {
	for _, f := range a.Frames {
		if f.harness() {
			return true
		}
	}
	return false
}

type c35Report struct {
	Raw      string      `json:"raw"`
	Accesses []c35Access `json:"accesses"`
}

var (
	c35reAddr   = regexp.MustCompile(`0x[0-9a-f]+`)
	c35reAccess = regexp.MustCompile(`^(Previous )?(atomic )?([Rr]ead|[Ww]rite) at 0x[0-9a-f]+ by (goroutine \d+|main goroutine)`)
	c35reArgs   = regexp.MustCompile(`\([^()]*\)$`)
)

// c35ShortFunc strips the module path and collapses the type arguments of
// generic instantiations (they are compiler shapes, not stable names).
func c35ShortFunc(fn string) string {
	fn = strings.TrimPrefix(fn, c35ModulePath)
	for {
		open := strings.IndexByte(fn, '[')
		if open < 0 {
			return fn
		}
		depth, end := 0, -1
		for i := open; i < len(fn); i++ {
			if fn[i] == '[' {
				depth++
			} else if fn[i] == ']' {
				depth--
				if depth == 0 {
					end = i
					break
				}
			}
		}
		if end < 0 {
			return fn[:open]
		}
		fn = fn[:open] + "<T>" + fn[end+1:]
	}
}

// c35ParseReports splits a race log into reports.
func c35ParseReports(log string) []c35Report {
	var out []c35Report
	for _, block := range strings.Split(log, "==================") {
		if !strings.Contains(block, "WARNING: DATA RACE") {
			continue
		}
		rep := c35Report{Raw: strings.TrimSpace(block)}
		lines := strings.Split(block, "\n")
		var cur *c35Access
		inAccess := false
		for i := 0; i < len(lines); i++ {
			l := lines[i]
			t := strings.TrimSpace(l)
			if c35reAccess.MatchString(t) {
				rep.Accesses = append(rep.Accesses, c35Access{Header: c35reAddr.ReplaceAllString(t, "0xX")})
				cur = &rep.Accesses[len(rep.Accesses)-1]
				inAccess = true
				continue
			}
			if strings.HasPrefix(t, "Goroutine ") || strings.HasPrefix(t, "Mutex ") {
				inAccess = false
				continue
			}
			if !inAccess || cur == nil {
				continue
			}
			if t == "" {
				inAccess = false
				continue
			}
			if strings.Contains(t, "failed to restore the stack") {
				cur.Unrestored = true
				continue
			}
			// a frame: "  pkg.func(args)" followed by "      /path/file.go:123 +0x..."
			if strings.HasPrefix(l, "  ") && !strings.HasPrefix(l, "      ") && i+1 < len(lines) && strings.HasPrefix(lines[i+1], "      ") {
				fn := c35reArgs.ReplaceAllString(t, "")
				loc := strings.TrimSpace(lines[i+1])
				if sp := strings.IndexByte(loc, ' '); sp > 0 {
					loc = loc[:sp]
				}
				file, line := loc, ""
				if c := strings.LastIndexByte(loc, ':'); c > 0 {
					file, line = loc[:c], loc[c+1:]
				}
				cur.Frames = append(cur.Frames, c35Frame{Func: fn, File: file, Line: line})
				i++
			}
		}
		out = append(out, rep)
	}
	return out
}

type c35Verdict struct {
	Class     string // "refinery" | "harness-only" | "one-side-refinery" | "unrestored" | "unparsed"
	Signature string
	Pair      [2]string // innermost refinery functions, sorted
	Entries   [2]string // goroutine entry points, sorted
	Harness   bool      // a harness frame is on one of the stacks (the harness called Refinery directly there)
}

func c35Classify(r c35Report) c35Verdict {
	if len(r.Accesses) < 2 {
		return c35Verdict{Class: "unparsed"}
	}
	a, b := r.Accesses[0], r.Accesses[1]
	if a.Unrestored || b.Unrestored || len(a.Frames) == 0 || len(b.Frames) == 0 {
		return c35Verdict{Class: "unrestored"}
	}
	fa, fb := a.innermost(), b.innermost()
	v := c35Verdict{Harness: a.hasHarness() || b.hasHarness()}
	switch {
	case fa == "" && fb == "":
		v.Class = "harness-only"
		return v
	case fa == "" || fb == "":
		v.Class = "one-side-refinery"
		return v
	}
	v.Class = "refinery"
	p := []string{fa, fb}
	sort.Strings(p)
	v.Pair = [2]string{p[0], p[1]}
	e := []string{a.entry(), b.entry()}
	sort.Strings(e)
	v.Entries = [2]string{e[0], e[1]}
	v.Signature = "C35/race/" + p[0] + "|" + p[1]
	return v
}

// ---------------------------------------------------------------------------
// child: runs one storm

func TestVerif_C35_Child(t *testing.T) {
	batch, _, ok := verifkit.InChild()
	if !ok {
		t.Skip("only runs as a child of TestVerif_C35")
	}
	raw, err := os.ReadFile(batch)
	if err != nil {
		t.Fatalf("c35 child: %v", err)
	}
	var spec c35Spec
	if err := json.Unmarshal(raw, &spec); err != nil {
		t.Fatalf("c35 child: %v", err)
	}
	wal, err := verifkit.OpenWAL()
	if err != nil {
		t.Fatalf("c35 child: %v", err)
	}
	defer wal.Close()
	wal.Begin(spec.Case)
	dir, err := os.MkdirTemp("", "verif-c35-")
	if err != nil {
		t.Fatalf("c35 child: %v", err)
	}
	defer os.RemoveAll(dir)
	res := c35RunStorm(spec, dir, func() { wal.Done(c35StartedMark+spec.Case, "cluster-started") })
	b, _ := json.Marshal(res)
	if err := os.WriteFile(spec.ResultPath, b, 0o644); err != nil {
		t.Fatalf("c35 child: %v", err)
	}
	wal.Done(spec.Case, "ok")
}

// ---------------------------------------------------------------------------
// parent

func c35RaceFiles(dir string) map[string]bool {
	m := map[string]bool{}
	hits, _ := filepath.Glob(filepath.Join(dir, "race."+c35Unit+".*"))
	for _, h := range hits {
		m[h] = true
	}
	return m
}

func TestVerif_C35(t *testing.T) {
	run := verifkit.Start(t, "C35", c35Unit)
	defer run.Finish()
	run.Rule("one case = one storm in a child process: a PRNG-chosen 2-3 node cluster of complete Refinery nodes (real fileConfig on disk, RedisPubsubPeers over a shared in-process pubsub or FilePeers, optional gRPC / Prometheus / OTel-metrics / log sampler / reload timer) under PRNG-scripted actors (4-7 senders over JSON+msgpack batch+single, OTLP HTTP+gRPC traces+logs with few reused trace ids; 2-3 reloaders rewriting config+rules and reloading directly / via cfg_update / via the timer; membership churn; query+health+metrics scrapes; optional graceful shutdown of a node in mid-storm; final shutdown under traffic). A storm is non-trivial when spans were accepted and reloads ran; two storms are distinct when their configuration signature (nodes, peer mode, gRPC, metric backends, timer, mid-shutdown, upstream faults, workers) differs.")
	run.Assume("the oracle is the Go race detector: a race that the storms' schedules do not exercise, or whose two accesses are more than the detector's history apart (reports with an unrestorable stack are counted, not judged), is not seen")
	run.Assume("a shared in-process LocalPubSub stands in for Redis pubsub (same delivery model as GoRedisPubSub: one goroutine per delivered message); the go-redis client itself is not exercised")
	run.Assume("a report counts against Refinery only if both access stacks contain a frame of a non-test file of the repository; reports without such frames on one or both sides are counted separately and listed in the log, not judged")

	outDir := run.OutDir()
	budgetMs := 2400
	seen := c35RaceFiles(outDir)
	type sigInfo struct {
		first  c35Report
		v      c35Verdict
		storms map[int]bool
		n      int
	}
	entryPoints := map[string]bool{}
	racingEntryPairs := map[string]bool{}
	sideNotes := []string{}

	judge := func(ci int, files []string) {
		sigs := map[string]*sigInfo{}
		for _, f := range files {
			raw, err := os.ReadFile(f)
			if err != nil {
				continue
			}
			for _, rep := range c35ParseReports(string(raw)) {
				run.Count("race_reports_parsed", 1)
				v := c35Classify(rep)
				switch v.Class {
				case "refinery":
					run.Count("race_reports_refinery_both_sides", 1)
					if v.Harness {
						run.Count("race_reports_refinery_with_harness_caller", 1)
					}
					racingEntryPairs[v.Entries[0]+" | "+v.Entries[1]] = true
					si := sigs[v.Signature]
					if si == nil {
						si = &sigInfo{first: rep, v: v, storms: map[int]bool{}}
						sigs[v.Signature] = si
					}
					si.n++
				case "harness-only":
					run.Count("race_reports_without_refinery_frames", 1)
					sideNotes = append(sideNotes, fmt.Sprintf("storm %d: report without refinery frames:\n%s", ci, rep.Raw))
				case "one-side-refinery":
					run.Count("race_reports_one_side_refinery", 1)
					sideNotes = append(sideNotes, fmt.Sprintf("storm %d: report with refinery frames on one side only:\n%s", ci, rep.Raw))
				case "unrestored":
					run.Count("race_reports_stack_unrestored", 1)
				default:
					run.Count("race_reports_unparsed", 1)
					sideNotes = append(sideNotes, fmt.Sprintf("storm %d: unparsed report:\n%s", ci, rep.Raw))
				}
			}
		}
		keys := make([]string, 0, len(sigs))
		for k := range sigs {
			keys = append(keys, k)
		}
		sort.Strings(keys)
		for _, k := range keys {
			si := sigs[k]
			run.Count("race_signatures_per_storm_total", 1)
			run.Violation(k, fmt.Sprintf("data race between %s and %s (goroutine entry points %s / %s)", si.v.Pair[0], si.v.Pair[1], si.v.Entries[0], si.v.Entries[1]),
				map[string]any{"storm": ci, "reports_with_this_pair_in_this_storm": si.n, "harness_frame_on_a_stack": si.v.Harness,
					"accesses": si.first.Accesses, "raw_report": si.first.Raw})
		}
	}

	run.Cases("storm", run.N(5, 60), func(i int, rng *verifkit.Rand) {
		spec := c35MakeSpec(i, rng, budgetMs)
		spec.ResultPath = filepath.Join(outDir, fmt.Sprintf("c35-storm-%d.result.json", i))
		os.Remove(spec.ResultPath)
		specPath := filepath.Join(outDir, fmt.Sprintf("c35-storm-%d.spec.json", i))
		b, _ := json.Marshal(spec)
		if err := os.WriteFile(specPath, b, 0o644); err != nil {
			t.Fatalf("c35: %v", err)
		}
		extra := []string{}
		if g := os.Getenv("GORACE"); g != "" && !strings.Contains(g, "history_size") {
			extra = append(extra, "GORACE="+g+" history_size=3")
		}
		// A child that dies before its cluster is up (a listener port taken by
		// another process between probing and binding makes Router.LnS panic in
		// grpc.Serve(nil)) has not run the storm: start it again.
		var out verifkit.ChildOutcome
		for attempt := 0; attempt < 3; attempt++ {
			out = verifkit.RunChild(outDir, "TestVerif_C35_Child", specPath, i, 4*time.Minute, extra...)
			_, fin := out.Done[i]
			_, started := out.Done[c35StartedMark+i]
			if fin || started || out.TimedOut {
				break
			}
			run.Count("storm_restarts_after_death_during_cluster_start", 1)
			site, msg := verifkit.CrashSite(out.Output)
			t.Logf("c35: storm %d attempt %d: child died during cluster start (%s: %s)", i, attempt, site, msg)
		}
		// race logs written by this child
		var files []string
		for f := range c35RaceFiles(outDir) {
			if !seen[f] {
				seen[f] = true
				files = append(files, f)
			}
		}
		sort.Strings(files)

		_, finished := out.Done[i]
		var res c35Result
		if raw, err := os.ReadFile(spec.ResultPath); err == nil {
			_ = json.Unmarshal(raw, &res)
		}
		if !finished {
			run.Count("storms_not_finished", 1)
			tail := out.Output
			if len(tail) > 6000 {
				tail = tail[len(tail)-6000:]
			}
			keep := filepath.Join(outDir, fmt.Sprintf("c35-storm-%d.child-output.log", i))
			if rd := os.Getenv("VERIF_REPLAY_DIR"); rd != "" {
				keep = filepath.Join(rd, fmt.Sprintf("C35-%s-seed%d-storm%d-child-output.log", c35Unit, run.Seed(), i))
			}
			_ = os.WriteFile(keep, []byte(out.Output), 0o644)
			if out.TimedOut {
				run.Inconclusive(fmt.Sprintf("storm %d: child hit its watchdog (output kept in %s)", i, keep))
			} else {
				site, msg := verifkit.CrashSite(out.Output)
				run.Count("storms_crashed", 1)
				t.Logf("c35: storm %d child died (site %s: %s); tail of output:\n%s", i, site, msg, tail)
				run.Inconclusive(fmt.Sprintf("storm %d: child process died at %s: %s (crashes are C28's subject; output kept in %s)", i, site, msg, keep))
			}
		}
		if res.Inconclusive != "" {
			run.Inconclusive(fmt.Sprintf("storm %d: %s", i, res.Inconclusive))
		}
		for k, v := range res.Counters {
			run.Count(k, v)
		}
		for _, e := range res.EntryPoints {
			entryPoints[e] = true
		}
		if len(res.Notes) > 0 {
			t.Logf("c35: storm %d notes: %s", i, strings.Join(res.Notes, " ; "))
		}
		if res.Counters["spans_sent"] > 0 && res.Counters["reloads"] > 0 {
			run.Nontrivial(spec.Signature())
		}
		run.Sample(map[string]any{"storm": i, "spec": spec, "counters": res.Counters})
		judge(i, files)
	})

	// anything the parent process itself reported (it runs no Refinery code)
	var own []string
	for f := range c35RaceFiles(outDir) {
		if !seen[f] {
			own = append(own, f)
		}
	}
	if len(own) > 0 {
		judge(-1, own)
	}
	run.Count("goroutine_entry_points_observed", int64(len(entryPoints)))
	run.Count("goroutine_entry_point_pairs_racing", int64(len(racingEntryPairs)))
	if len(entryPoints) > 0 {
		eps := make([]string, 0, len(entryPoints))
		for e := range entryPoints {
			eps = append(eps, e)
		}
		sort.Strings(eps)
		t.Logf("c35: refinery goroutine entry points observed alive during the storms (%d): %s", len(eps), strings.Join(eps, ", "))
	}
	if len(racingEntryPairs) > 0 {
		ps := make([]string, 0, len(racingEntryPairs))
		for p := range racingEntryPairs {
			ps = append(ps, p)
		}
		sort.Strings(ps)
		t.Logf("c35: goroutine entry-point pairs observed racing (%d):\n  %s", len(ps), strings.Join(ps, "\n  "))
	}
	if len(sideNotes) > 0 {
		p := filepath.Join(outDir, "c35-reports-not-judged.log")
		_ = os.WriteFile(p, []byte(strings.Join(sideNotes, "\n\n")), 0o644)
		if rd := os.Getenv("VERIF_REPLAY_DIR"); rd != "" {
			_ = os.WriteFile(filepath.Join(rd, fmt.Sprintf("C35-%s-seed%d-reports-not-judged.log", c35Unit, run.Seed())), []byte(strings.Join(sideNotes, "\n\n")), 0o644)
		}
		t.Logf("c35: %d race reports were not judged (no refinery frame on one or both sides); see %s", len(sideNotes), p)
	}
}
