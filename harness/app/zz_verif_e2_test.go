//go:build verif

package app

// Engine E2: N complete Refinery nodes in one process, wired like
// cmd/refinery/main.go, plus a fake Honeycomb (verifkit.FakeHoney).
// Shared by the checks of C16, C17 (unit "cluster"), C36 and later C20/C35.
// API documentation: /verif/notes/E2.md.
//
// Everything here is harness code; names are prefixed e2 so that they cannot
// collide with app_test.go, which is compiled into the same test binary.

import (
	"bufio"
	"bytes"
	"context"
	"encoding/json"
	"fmt"
	"io"
	"net"
	"net/http"
	"net/url"
	"reflect"
	"runtime"
	"sort"
	"strconv"
	"strings"
	"sync"
	"time"

	"github.com/facebookgo/inject"
	"github.com/facebookgo/startstop"
	"github.com/jonboulle/clockwork"
	"go.opentelemetry.io/otel/trace"
	"go.opentelemetry.io/otel/trace/noop"

	"github.com/honeycombio/refinery/collect"
	"github.com/honeycombio/refinery/config"
	"github.com/honeycombio/refinery/internal/configwatcher"
	"github.com/honeycombio/refinery/internal/health"
	"github.com/honeycombio/refinery/internal/peer"
	"github.com/honeycombio/refinery/internal/verifkit"
	"github.com/honeycombio/refinery/logger"
	"github.com/honeycombio/refinery/metrics"
	"github.com/honeycombio/refinery/pubsub"
	"github.com/honeycombio/refinery/sample"
	"github.com/honeycombio/refinery/sharder"
	"github.com/honeycombio/refinery/transmit"
	"github.com/honeycombio/refinery/types"
)

// ---------------------------------------------------------------------------
// options and node/cluster types

const (
	e2NodeAttr = "verif.node" // AdditionalAttributes key naming the node whose collector sent the span
	e2IDField  = "verif.id"   // unique id carried by every span the harness posts
	// classic (legacy-format) keys: no /1/auth environment lookup is made for them
	e2KeyA = "a1a1a1a1a1a1a1a1a1a1a1a1a1a1a1a1"
	e2KeyB = "b2b2b2b2b2b2b2b2b2b2b2b2b2b2b2b2"
)

// e2PollBound is the generous bound of every quiescence poll. A poll that
// times out makes the case inconclusive, never a violation.
var e2PollBound = 30 * time.Second

type e2Options struct {
	Nodes int
	// Honey is the fake Honeycomb to send to; one is created (and owned by the
	// cluster) when nil.
	Honey *verifkit.FakeHoney
	// Configure may adjust a node's MockConfig before the node is built.
	// Listen addresses, peers, HoneycombAPI and the verif.node attribute are
	// already filled in.
	Configure func(node int, cfg *config.MockConfig)
	// GRPC also opens the gRPC listener of the incoming router.
	GRPC bool
	// NoTap disables recording of the nodes' outgoing HTTP requests.
	NoTap bool
	// HealthGate makes every node's health object an e2HealthGate (the real
	// health.Health behind a gate that can hold one Unregister call), see
	// e2Node.HealthGate. Off: the real *health.Health is injected directly.
	HealthGate bool
}

type e2Node struct {
	Index     int
	Cfg       *config.MockConfig
	App       *App
	Graph     *inject.Graph
	Metrics   *metrics.MultiMetrics
	Stress    *collect.StressRelief
	Sharder   *sharder.DeterministicSharder
	Collector *collect.InMemCollector
	Peers     *peer.FilePeers
	Upstream  *transmit.DirectTransmission
	PeerTx    *transmit.DirectTransmission
	HTTPAddr  string // host:port of the incoming router
	PeerAddr  string // host:port of the peer router
	GRPCAddr  string
	PeerURL   string // the address peers know this node by ("http://127.0.0.1:port")
	Version   string
	// HealthGate is non-nil when the cluster was started with HealthGate.
	HealthGate *e2HealthGate
	done       chan struct{}
	doneOnce   sync.Once
	stopped    bool
}

type e2Cluster struct {
	Nodes    []*e2Node
	Honey    *verifkit.FakeHoney
	ownHoney bool
	tap      *e2Tap
	client   *http.Client
	baseline map[int]bool // goroutine ids alive before the cluster was built
}

// ---------------------------------------------------------------------------
// outgoing-request tap: the nodes' http.Transports dial through this, so that
// everything a node's upstream or peer transmission writes is recorded at the
// socket (the HTTP boundary between nodes and towards Honeycomb).

type e2Tap struct {
	mu    sync.Mutex
	conns []*e2TapConn
}

type e2TapConn struct {
	net.Conn
	node int
	kind string // "upstream" or "peer": which transport of the node dialled
	dest string // host:port dialled
	mu   sync.Mutex
	out  bytes.Buffer
}

func (c *e2TapConn) Write(p []byte) (int, error) {
	n, err := c.Conn.Write(p)
	if n > 0 {
		c.mu.Lock()
		c.out.Write(p[:n])
		c.mu.Unlock()
	}
	return n, err
}

func (t *e2Tap) dialer(node int, kind string, timeout time.Duration) func(ctx context.Context, network, addr string) (net.Conn, error) {
	d := &net.Dialer{Timeout: timeout}
	return func(ctx context.Context, network, addr string) (net.Conn, error) {
		c, err := d.DialContext(ctx, network, addr)
		if err != nil || t == nil {
			return c, err
		}
		tc := &e2TapConn{Conn: c, node: node, kind: kind, dest: addr}
		t.mu.Lock()
		t.conns = append(t.conns, tc)
		t.mu.Unlock()
		return tc, nil
	}
}

// e2WireRequest is one HTTP request a node sent, as written to the socket.
type e2WireRequest struct {
	Node      int                   `json:"node"` // sender
	Kind      string                `json:"kind"` // sender's transport: upstream | peer
	Dest      string                `json:"dest"` // host:port dialled
	Method    string                `json:"method"`
	Host      string                `json:"host"`
	Path      string                `json:"path"`
	APIKey    string                `json:"api_key"`
	Dataset   string                `json:"dataset"`
	UserAgent string                `json:"user_agent"`
	Events    []verifkit.HoneyEvent `json:"events"`
	DecodeErr string                `json:"decode_err,omitempty"`
}

// WireRequests parses everything recorded so far. Call it at quiescence (a
// request still being written is ignored).
func (c *e2Cluster) WireRequests() []e2WireRequest {
	if c.tap == nil {
		return nil
	}
	c.tap.mu.Lock()
	conns := append([]*e2TapConn(nil), c.tap.conns...)
	c.tap.mu.Unlock()
	var out []e2WireRequest
	for _, tc := range conns {
		tc.mu.Lock()
		raw := append([]byte(nil), tc.out.Bytes()...)
		tc.mu.Unlock()
		br := bufio.NewReader(bytes.NewReader(raw))
		for {
			req, err := http.ReadRequest(br)
			if err != nil {
				break
			}
			body, berr := io.ReadAll(req.Body)
			req.Body.Close()
			if berr != nil {
				break
			}
			w := e2WireRequest{
				Node: tc.node, Kind: tc.kind, Dest: tc.dest, Method: req.Method, Host: req.Host,
				Path: req.URL.Path, APIKey: req.Header.Get("X-Honeycomb-Team"), UserAgent: req.Header.Get("User-Agent"),
			}
			esc := req.URL.EscapedPath()
			if strings.HasPrefix(esc, "/1/batch/") {
				ds := strings.TrimPrefix(esc, "/1/batch/")
				if u, err := url.PathUnescape(ds); err == nil {
					ds = u
				}
				w.Dataset = ds
				_, evs, derr := verifkit.DecodeBatchBody(req.Header.Get("Content-Type"), req.Header.Get("Content-Encoding"), body)
				w.Events = evs
				if derr != nil {
					w.DecodeErr = derr.Error()
				}
			}
			out = append(out, w)
		}
	}
	return out
}

// ---------------------------------------------------------------------------
// building and starting

func e2FreePorts(n int) ([]int, error) {
	var ls []net.Listener
	var ports []int
	defer func() {
		for _, l := range ls {
			l.Close()
		}
	}()
	for i := 0; i < n; i++ {
		l, err := net.Listen("tcp", "127.0.0.1:0")
		if err != nil {
			return nil, err
		}
		ls = append(ls, l)
		ports = append(ports, l.Addr().(*net.TCPAddr).Port)
	}
	return ports, nil
}

// e2DefaultConfig is the per-node configuration before Configure is applied.
func e2DefaultConfig(node int, httpAddr, peerAddr string, otherPeers []string, apiURL string) *config.MockConfig {
	return &config.MockConfig{
		GetTracesConfigVal: config.TracesConfig{
			SendTicker:   config.Duration(5 * time.Millisecond),
			SendDelay:    config.Duration(10 * time.Millisecond),
			TraceTimeout: config.Duration(100 * time.Millisecond),
			BatchTimeout: config.Duration(20 * time.Millisecond),
			MaxBatchSize: 50,
		},
		GetSamplerTypeVal:    &config.DeterministicSamplerConfig{SampleRate: 1},
		AddRuleReasonToTrace: true,
		PeerManagementType:   "file",
		GetPeersVal:          otherPeers, // "the list of peers ..., excluding self" (config.md)
		RedisIdentifier:      "127.0.0.1",
		GetListenAddrVal:     httpAddr,
		GetPeerListenAddrVal: peerAddr,
		GetHoneycombAPIVal:   apiURL,
		GetCollectionConfigVal: config.CollectionConfig{
			WorkerCount:        3,
			ShutdownDelay:      config.Duration(15 * time.Second),
			HealthCheckTimeout: config.Duration(15 * time.Second),
			IncomingQueueSize:  30000,
			PeerQueueSize:      30000,
		},
		GetCompressPeerCommunicationsVal: true,
		TraceIdFieldNames:                []string{"trace.trace_id", "traceId"},
		ParentIdFieldNames:               []string{"trace.parent_id", "parentId"},
		SampleCache:                      config.SampleCacheConfig{KeptSize: 2000, DroppedSize: 20000, SizeCheckInterval: config.Duration(10 * time.Second)},
		StressRelief:                     config.StressReliefConfig{Mode: "never", ActivationLevel: 90, DeactivationLevel: 75, SamplingRate: 100, MinimumActivationDuration: config.Duration(10 * time.Second)},
		AdditionalAttributes:             map[string]string{e2NodeAttr: strconv.Itoa(node)},
		GetLoggerLevelVal:                config.ErrorLevel,
		EnvironmentCacheTTL:              time.Hour,
	}
}

// e2Start builds and starts the cluster. It retries the whole start when a
// listener could not be bound (ports are chosen at run time and can be taken
// by another process between probing and binding). An error is a harness
// failure, not a verdict.
func e2Start(opts e2Options) (*e2Cluster, error) {
	if opts.Nodes < 1 {
		opts.Nodes = 1
	}
	baseline := map[int]bool{}
	for _, g := range e2AllGoroutines() {
		baseline[g.ID] = true
	}
	var lastErr error
	for attempt := 0; attempt < 4; attempt++ {
		c, err := e2StartOnce(opts)
		if err == nil {
			c.baseline = baseline
			return c, nil
		}
		lastErr = err
	}
	return nil, lastErr
}

func e2StartOnce(opts e2Options) (*e2Cluster, error) {
	per := 2
	if opts.GRPC {
		per = 3
	}
	ports, err := e2FreePorts(opts.Nodes * per)
	if err != nil {
		return nil, err
	}
	c := &e2Cluster{Honey: opts.Honey}
	if c.Honey == nil {
		c.Honey = verifkit.NewFakeHoney()
		c.ownHoney = true
	}
	if !opts.NoTap {
		c.tap = &e2Tap{}
	}
	c.client = &http.Client{Transport: &http.Transport{MaxIdleConnsPerHost: 16}, Timeout: 30 * time.Second}

	peerURLs := make([]string, opts.Nodes)
	for i := 0; i < opts.Nodes; i++ {
		peerURLs[i] = "http://127.0.0.1:" + strconv.Itoa(ports[i*per+1])
	}
	fail := func(err error) (*e2Cluster, error) {
		c.Stop()
		c.Close()
		return nil, err
	}
	for i := 0; i < opts.Nodes; i++ {
		var others []string
		for j, u := range peerURLs {
			if j != i {
				others = append(others, u)
			}
		}
		httpAddr := "127.0.0.1:" + strconv.Itoa(ports[i*per])
		peerAddr := "127.0.0.1:" + strconv.Itoa(ports[i*per+1])
		cfg := e2DefaultConfig(i, httpAddr, peerAddr, others, c.Honey.URL())
		grpcAddr := ""
		if opts.GRPC {
			grpcAddr = "127.0.0.1:" + strconv.Itoa(ports[i*per+2])
			dt := config.DefaultTrue(true)
			cfg.GetGRPCEnabledVal = true
			cfg.GetGRPCListenAddrVal = grpcAddr
			cfg.GetGRPCServerParameters = config.GRPCServerParameters{
				Enabled: &dt, ListenAddr: grpcAddr,
				MaxConnectionIdle: config.Duration(time.Minute), MaxConnectionAge: config.Duration(3 * time.Minute),
				MaxConnectionAgeGrace: config.Duration(time.Minute), KeepAlive: config.Duration(time.Minute),
				KeepAliveTimeout: config.Duration(20 * time.Second),
				MaxSendMsgSize:   config.MemorySize(15 << 20), MaxRecvMsgSize: config.MemorySize(15 << 20),
			}
		}
		if opts.Configure != nil {
			opts.Configure(i, cfg)
		}
		n, err := e2BuildNodeOpt(i, cfg, c.tap, opts.HealthGate)
		if err != nil {
			return fail(fmt.Errorf("node %d: %w", i, err))
		}
		n.HTTPAddr, n.PeerAddr, n.GRPCAddr, n.PeerURL = httpAddr, peerAddr, grpcAddr, peerURLs[i]
		c.Nodes = append(c.Nodes, n)
	}
	// all listeners must answer as *our* routers before any span is posted
	for _, n := range c.Nodes {
		for _, addr := range []string{n.HTTPAddr, n.PeerAddr} {
			ok := false
			deadline := time.Now().Add(5 * time.Second)
			for time.Now().Before(deadline) {
				resp, err := c.client.Get("http://" + addr + "/version")
				if err == nil {
					b, _ := io.ReadAll(resp.Body)
					resp.Body.Close()
					if strings.Contains(string(b), n.Version) {
						ok = true
						break
					}
				}
				time.Sleep(5 * time.Millisecond)
			}
			if !ok {
				return fail(fmt.Errorf("node %d: listener %s did not come up as this node's router (port taken?)", n.Index, addr))
			}
		}
	}
	return c, nil
}

// e2BuildNode wires one node exactly like cmd/refinery/main.go does (same
// objects, same names, same constructors), with a MockConfig instead of the
// file config, a null logger, and transports that dial through the tap.
func e2BuildNode(index int, c *config.MockConfig, tap *e2Tap) (*e2Node, error) {
	return e2BuildNodeOpt(index, c, tap, false)
}

// e2HealthGate is the node's real health.Health (every call is delegated to
// it) with one addition: after Arm(subsystem) the next Unregister(subsystem)
// parks until Release(). InMemCollector.Stop calls
// Health.Unregister("collector") right after closing its done channel and
// before it stops its workers, so parking there holds a graceful shutdown at
// exactly that point: an admissible schedule (Unregister takes a mutex and the
// goroutine may be descheduled there for any length of time), during which the
// workers keep ticking and deciding.
type e2HealthGate struct {
	*health.Health
	mu      sync.Mutex
	armed   string
	parked  chan struct{}
	release chan struct{}
}

func (g *e2HealthGate) Arm(subsystem string) {
	g.mu.Lock()
	g.armed, g.parked, g.release = subsystem, make(chan struct{}), make(chan struct{})
	g.mu.Unlock()
}

// Parked is closed when the armed Unregister call has arrived.
func (g *e2HealthGate) Parked() <-chan struct{} {
	g.mu.Lock()
	defer g.mu.Unlock()
	return g.parked
}

func (g *e2HealthGate) Release() {
	g.mu.Lock()
	if g.release != nil {
		select {
		case <-g.release:
		default:
			close(g.release)
		}
	}
	g.mu.Unlock()
}

func (g *e2HealthGate) Unregister(subsystem string) {
	g.mu.Lock()
	hit := g.armed != "" && g.armed == subsystem
	parked, release := g.parked, g.release
	if hit {
		g.armed = ""
	}
	g.mu.Unlock()
	if hit {
		close(parked)
		<-release
	}
	g.Health.Unregister(subsystem)
}

func e2BuildNodeOpt(index int, c *config.MockConfig, tap *e2Tap, healthGate bool) (*e2Node, error) {
	version := fmt.Sprintf("verif-e2-n%d-%x", index, time.Now().UnixNano())
	a := &App{Version: version}
	n := &e2Node{Index: index, Cfg: c, App: a, Version: version, done: make(chan struct{})}

	lgr := &logger.NullLogger{}
	collector := collect.GetCollectorImplementation(c).(*collect.InMemCollector)
	metricsSingleton := metrics.GetMetricsImplementation(c)
	shrdr := sharder.GetSharderImplementation(c).(*sharder.DeterministicSharder)
	samplerFactory := &sample.SamplerFactory{}

	peers := &peer.FilePeers{Done: n.done}
	pubsubber := &pubsub.LocalPubSub{}

	upstreamTransport := &http.Transport{
		Proxy:               nil,
		DialContext:         tap.dialer(index, "upstream", 10*time.Second),
		TLSHandshakeTimeout: 15 * time.Second,
		ForceAttemptHTTP2:   true,
	}
	peerTransport := &http.Transport{
		Proxy:               nil,
		DialContext:         tap.dialer(index, "peer", 3*time.Second),
		TLSHandshakeTimeout: 1200 * time.Millisecond,
		ForceAttemptHTTP2:   true,
	}

	stressRelief := &collect.StressRelief{Done: n.done}
	upstreamTransmission := transmit.NewDirectTransmission(
		types.TransmitTypeUpstream, upstreamTransport,
		int(c.GetTracesConfig().GetMaxBatchSize()), time.Duration(c.GetTracesConfig().GetBatchTimeout()),
		30*time.Second, true, c.GetAdditionalHeaders(),
	)
	peerTransmission := transmit.NewDirectTransmission(
		types.TransmitTypePeer, peerTransport,
		int(c.GetTracesConfig().GetMaxBatchSize()), time.Duration(c.GetTracesConfig().GetBatchTimeout()),
		10*time.Second, c.GetCompressPeerCommunication(), nil,
	)

	var promMetrics metrics.MetricsBackend = &metrics.NullMetrics{}
	var oTelMetrics metrics.MetricsBackend = &metrics.NullMetrics{}
	refineryHealth := &health.Health{}
	var healthObject any = refineryHealth
	if healthGate {
		// inject does not look into the embedded pointer: wire the real Health by hand
		refineryHealth.Clock, refineryHealth.Metrics, refineryHealth.Logger = clockwork.NewRealClock(), metricsSingleton, lgr
		n.HealthGate = &e2HealthGate{Health: refineryHealth}
		healthObject = n.HealthGate
	}
	tracer := trace.Tracer(noop.Tracer{})

	g := &inject.Graph{}
	objects := []*inject.Object{
		{Value: c},
		{Value: peers},
		{Value: pubsubber},
		{Value: lgr},
		{Value: upstreamTransport, Name: "upstreamTransport"},
		{Value: peerTransport, Name: "peerTransport"},
		{Value: upstreamTransmission, Name: "upstreamTransmission"},
		{Value: peerTransmission, Name: "peerTransmission"},
		{Value: shrdr},
		{Value: collector},
		{Value: promMetrics, Name: "promMetrics"},
		{Value: oTelMetrics, Name: "otelMetrics"},
		{Value: tracer, Name: "tracer"},
		{Value: clockwork.NewRealClock()},
		{Value: metricsSingleton, Name: "metrics"},
		{Value: version, Name: "version"},
		{Value: samplerFactory},
		{Value: stressRelief, Name: "stressRelief"},
		{Value: healthObject},
		{Value: &configwatcher.ConfigWatcher{}},
		{Value: a},
		{Value: fmt.Sprintf("verifnode%d", index), Name: "instanceID"},
	}
	if err := g.Provide(objects...); err != nil {
		return nil, fmt.Errorf("provide: %w", err)
	}
	if err := g.Populate(); err != nil {
		return nil, fmt.Errorf("populate: %w", err)
	}
	n.Graph, n.Metrics, n.Stress, n.Sharder, n.Collector, n.Peers = g, metricsSingleton, stressRelief, shrdr, collector, peers
	n.Upstream, n.PeerTx = upstreamTransmission, peerTransmission
	if err := startstop.Start(g.Objects(), nil); err != nil {
		// stop whatever did start
		_ = startstop.Stop(g.Objects(), nil)
		return nil, fmt.Errorf("start: %w", err)
	}
	if err := peers.Ready(); err != nil {
		return nil, fmt.Errorf("peers.Ready: %w", err)
	}
	return n, nil
}

// ---------------------------------------------------------------------------
// stopping

// RequestShutdown does what main.go does first on SIGTERM: close(done).
func (n *e2Node) RequestShutdown() { n.doneOnce.Do(func() { close(n.done) }) }

// StopNode performs the graceful shutdown of one node as main.go does:
// close(done), then startstop.Stop over the whole graph. (main.go sleeps
// 2*BatchTimeout in between "to allow in-flight requests from peers to
// complete"; callers that need that quiesce the peer traffic themselves, on
// counters.) A panic inside Stop is returned as an error with panicked=true.
func (c *e2Cluster) StopNode(i int) (err error, panicked bool) {
	n := c.Nodes[i]
	if n.stopped {
		return nil, false
	}
	n.stopped = true
	n.RequestShutdown()
	defer func() {
		if r := recover(); r != nil {
			buf := make([]byte, 16<<10)
			buf = buf[:runtime.Stack(buf, false)]
			err, panicked = fmt.Errorf("panic in startstop.Stop: %v\n%s", r, buf), true
		}
	}()
	return startstop.Stop(n.Graph.Objects(), nil), false
}

// Stop gracefully stops every node (shutdown is requested on all nodes first)
// and returns the first error.
func (c *e2Cluster) Stop() error {
	c.DropIdleConnections()
	for _, n := range c.Nodes {
		if !n.stopped {
			n.RequestShutdown()
		}
	}
	var first error
	for i := range c.Nodes {
		if err, _ := c.StopNode(i); err != nil && first == nil {
			first = err
		}
	}
	return first
}

// DropIdleConnections closes the idle keep-alive connections of the harness
// client and of the nodes' transports. net/http's Server.Shutdown (used by
// Router.Stop) waits up to 5 s for connections on which no request was ever
// sent (http.Transport dials such spare connections under concurrency);
// closing them from the client side first keeps a graceful stop fast. It
// does not touch connections with a request in flight.
func (c *e2Cluster) DropIdleConnections() {
	if c.client != nil {
		c.client.CloseIdleConnections()
	}
	for _, n := range c.Nodes {
		if n.Graph == nil {
			continue
		}
		for _, o := range n.Graph.Objects() {
			if t, ok := o.Value.(*http.Transport); ok {
				t.CloseIdleConnections()
			}
		}
	}
}

// Close releases harness resources (client connections, the fake Honeycomb if
// the cluster created it). The Honeycomb log stays readable.
func (c *e2Cluster) Close() {
	c.DropIdleConnections()
	if c.ownHoney && c.Honey != nil {
		c.Honey.Close()
	}
}

// ---------------------------------------------------------------------------
// posting spans

type e2Span struct {
	ID         string         `json:"id"` // verif.id, unique per span
	TraceID    string         `json:"trace"`
	ParentID   string         `json:"parent,omitempty"` // "" = root span
	Time       time.Time      `json:"time"`
	SampleRate int            `json:"samplerate,omitempty"` // 0 = not sent
	Fields     map[string]any `json:"fields,omitempty"`     // further user fields
}

// Data is the "data" object posted for the span.
func (s e2Span) Data() map[string]any {
	d := map[string]any{"trace.trace_id": s.TraceID, e2IDField: s.ID}
	if s.ParentID != "" {
		d["trace.parent_id"] = s.ParentID
	}
	for k, v := range s.Fields {
		d[k] = v
	}
	return d
}

type e2PostResult struct {
	Err        error
	HTTPStatus int
	Statuses   []int // per-event status from the batch response
	Body       string
}

// AllAccepted: HTTP 200 and every event answered 202.
func (r e2PostResult) AllAccepted(n int) bool {
	if r.Err != nil || r.HTTPStatus != http.StatusOK || len(r.Statuses) != n {
		return false
	}
	for _, s := range r.Statuses {
		if s != http.StatusAccepted {
			return false
		}
	}
	return true
}

// PostBatch posts spans as one JSON batch to POST /1/batch/<dataset> of the
// node's incoming listener (or its peer listener when toPeerPort is set).
func (c *e2Cluster) PostBatch(node int, toPeerPort bool, apiKey, dataset string, spans []e2Span) e2PostResult {
	type ev struct {
		Time       string         `json:"time,omitempty"`
		SampleRate int            `json:"samplerate,omitempty"`
		Data       map[string]any `json:"data"`
	}
	evs := make([]ev, len(spans))
	for i, s := range spans {
		evs[i] = ev{SampleRate: s.SampleRate, Data: s.Data()}
		if !s.Time.IsZero() {
			evs[i].Time = s.Time.UTC().Format(time.RFC3339Nano)
		}
	}
	body, err := json.Marshal(evs)
	if err != nil {
		return e2PostResult{Err: err}
	}
	addr := c.Nodes[node].HTTPAddr
	if toPeerPort {
		addr = c.Nodes[node].PeerAddr
	}
	req, err := http.NewRequest("POST", "http://"+addr+"/1/batch/"+url.PathEscape(dataset), bytes.NewReader(body))
	if err != nil {
		return e2PostResult{Err: err}
	}
	req.Header.Set("Content-Type", "application/json")
	req.Header.Set("X-Honeycomb-Team", apiKey)
	req.Header.Set("User-Agent", "verif-e2-client")
	resp, err := c.client.Do(req)
	if err != nil {
		return e2PostResult{Err: err}
	}
	defer resp.Body.Close()
	b, _ := io.ReadAll(resp.Body)
	res := e2PostResult{HTTPStatus: resp.StatusCode, Body: string(b)}
	var sts []struct {
		Status int `json:"status"`
	}
	if json.Unmarshal(b, &sts) == nil {
		for _, s := range sts {
			res.Statuses = append(res.Statuses, s.Status)
		}
	}
	return res
}

// ---------------------------------------------------------------------------
// metrics, ownership, stress, quiescence

// Counter reads a counter/gauge/updown of node i from the node's real
// MultiMetrics (0 when it does not exist yet).
func (c *e2Cluster) Counter(i int, name string) int64 {
	v, ok := c.Nodes[i].Metrics.Get(name)
	if !ok {
		return 0
	}
	return int64(v)
}

// Sum adds the named metrics over all nodes.
func (c *e2Cluster) Sum(names ...string) int64 {
	var t int64
	for i := range c.Nodes {
		for _, n := range names {
			t += c.Counter(i, n)
		}
	}
	return t
}

// Snapshot reads the named metrics summed over all nodes.
func (c *e2Cluster) Snapshot(names ...string) map[string]int64 {
	m := map[string]int64{}
	for _, n := range names {
		m[n] = c.Sum(n)
	}
	return m
}

// WaitFor polls cond (every 2 ms) up to e2PollBound. false = timed out: the
// caller reports the case as inconclusive.
func (c *e2Cluster) WaitFor(cond func() bool) bool {
	deadline := time.Now().Add(e2PollBound)
	for {
		if cond() {
			return true
		}
		if time.Now().After(deadline) {
			return false
		}
		time.Sleep(2 * time.Millisecond)
	}
}

// WaitPeerTrafficDrained waits until no node has an event queued or in flight
// towards a peer. Precondition: every PostBatch call has returned (a router
// enqueues the forward before it answers, and a receiving router enqueues any
// further forward before it answers its sender), so once the sum is zero it
// stays zero.
func (c *e2Cluster) WaitPeerTrafficDrained() bool {
	return c.WaitFor(func() bool { return c.Sum("libhoney_peer_queued_items") == 0 })
}

// WaitPeerTrafficDrainedTo is WaitPeerTrafficDrained with a floor: events that
// are known to be stuck in a peer transmission (they never leave
// libhoney_peer_queued_items) are discounted.
func (c *e2Cluster) WaitPeerTrafficDrainedTo(stuck int64) bool {
	return c.WaitFor(func() bool { return c.Sum("libhoney_peer_queued_items") <= stuck })
}

// WaitCollectorsIdle waits until every span that reached a collector queue
// was processed and every trace a collector accepted has been decided.
// wantProcessed is the number of spans expected to reach collectors since
// the snapshot base (span_processed is reported by the workers on their
// SendTicker).
func (c *e2Cluster) WaitCollectorsIdle(base map[string]int64, wantProcessed int64) bool {
	return c.WaitFor(func() bool {
		if c.Sum("span_processed")-base["span_processed"] < wantProcessed {
			return false
		}
		return c.Sum("trace_accepted") == c.Sum("trace_send_kept", "trace_send_dropped")
	})
}

// OwnerOf asks node `asker`'s real sharder which node owns the trace;
// -1 when the answer is not the address of any node.
func (c *e2Cluster) OwnerOf(asker int, traceID string) (int, string) {
	addr := c.Nodes[asker].Sharder.WhichShard(traceID).GetAddress()
	for _, n := range c.Nodes {
		if n.PeerURL == addr {
			return n.Index, addr
		}
	}
	return -1, addr
}

// SetStress switches the real StressRelief of every node to the given mode
// ("always"/"never") and sampling rate the way a config reload does: the
// config value changes, UpdateFromConfig is called (InMemCollector does that
// on reload), and the StressRelief's own 100 ms Recalc tick applies the mode.
// It returns when every node reports the wanted Stressed() value. (The
// harness does not call Recalc itself: Refinery only ever calls it from that
// one goroutine.)
func (c *e2Cluster) SetStress(mode string, rate uint64) error {
	for _, n := range c.Nodes {
		n.Cfg.Mux.Lock()
		n.Cfg.StressRelief.Mode = mode
		n.Cfg.StressRelief.SamplingRate = rate
		n.Cfg.Mux.Unlock()
		n.Stress.UpdateFromConfig()
	}
	want := mode == "always"
	ok := c.WaitFor(func() bool {
		for _, n := range c.Nodes {
			if n.Stress.Stressed() != want || n.Collector.Stressed() != want {
				return false
			}
		}
		return true
	})
	if !ok {
		return fmt.Errorf("nodes did not report Stressed()=%v after switching the mode to %q", want, mode)
	}
	return nil
}

// ---------------------------------------------------------------------------
// goroutine accounting

type e2Goroutine struct {
	ID        int      `json:"id"`
	State     string   `json:"state"`
	Funcs     []string `json:"funcs"`      // frames, innermost first
	CreatedBy string   `json:"created_by"` // function that started it
	Refinery  string   `json:"refinery"`   // outermost frame that is refinery code (the goroutine's entry point), else "created by <refinery func>", "" if neither
}

func e2AllGoroutines() []e2Goroutine {
	buf := make([]byte, 1<<20)
	for {
		n := runtime.Stack(buf, true)
		if n < len(buf) {
			buf = buf[:n]
			break
		}
		buf = make([]byte, 2*len(buf))
	}
	var out []e2Goroutine
	for _, block := range strings.Split(string(buf), "\n\n") {
		lines := strings.Split(strings.TrimSpace(block), "\n")
		if len(lines) == 0 || !strings.HasPrefix(lines[0], "goroutine ") {
			continue
		}
		var g e2Goroutine
		hdr := strings.TrimPrefix(lines[0], "goroutine ")
		if sp := strings.IndexByte(hdr, ' '); sp > 0 {
			g.ID, _ = strconv.Atoi(hdr[:sp])
			g.State = strings.Trim(hdr[sp+1:], "[]:")
		}
		isRefinery := func(fn, file string) bool {
			if !strings.HasPrefix(fn, "github.com/honeycombio/refinery/") {
				return false
			}
			if strings.HasPrefix(fn, "github.com/honeycombio/refinery/internal/verifkit") {
				return false
			}
			base := file
			if i := strings.LastIndexByte(base, '/'); i >= 0 {
				base = base[i+1:]
			}
			return !strings.HasPrefix(base, "zz_verif_")
		}
		outermost, createdBy := "", ""
		for i := 1; i < len(lines); i++ {
			l := lines[i]
			if strings.HasPrefix(l, "\t") {
				continue
			}
			file := ""
			if i+1 < len(lines) && strings.HasPrefix(lines[i+1], "\t") {
				file = strings.TrimSpace(lines[i+1])
				if sp := strings.IndexByte(file, ':'); sp > 0 {
					file = file[:sp]
				}
			}
			if strings.HasPrefix(l, "created by ") {
				fn := strings.TrimPrefix(l, "created by ")
				if sp := strings.Index(fn, " in goroutine"); sp > 0 {
					fn = fn[:sp]
				}
				g.CreatedBy = fn
				if isRefinery(fn, file) {
					createdBy = "created by " + fn
				}
				continue
			}
			fn := l
			if p := strings.LastIndexByte(fn, '('); p > 0 {
				fn = fn[:p]
			}
			g.Funcs = append(g.Funcs, fn)
			if isRefinery(fn, file) {
				outermost = fn // frames come innermost first: keep the last one
			}
		}
		g.Refinery = outermost
		if g.Refinery == "" {
			g.Refinery = createdBy
		}
		out = append(out, g)
	}
	return out
}

// LeftoverGoroutines polls the goroutine dump until no goroutine that was
// started after the cluster was built has a refinery frame (or was created by
// a refinery function), or until the set of such goroutines has been the same
// for a long series of polls (fixpoint): those are returned.
func (c *e2Cluster) LeftoverGoroutines() []e2Goroutine {
	return c.LeftoverGoroutinesWhere(func(g e2Goroutine) bool { return g.Refinery != "" })
}

// LeftoverGoroutinesWhere is LeftoverGoroutines for an arbitrary class of
// goroutines (additive): goroutines started since the cluster was built for
// which match is true are polled to a fixpoint in the same way. Use it for
// goroutines Refinery starts inside libraries (e.g. CreatedBy
// "github.com/honeycombio/dynsampler-go.(*X).Start"), which have no frame in a
// /repo package.
func (c *e2Cluster) LeftoverGoroutinesWhere(match func(g e2Goroutine) bool) []e2Goroutine {
	var last []e2Goroutine
	lastKey := ""
	same := 0
	for poll := 0; poll < 1500; poll++ {
		var cur []e2Goroutine
		for _, g := range e2AllGoroutines() {
			if c.baseline[g.ID] || !match(g) {
				continue
			}
			cur = append(cur, g)
		}
		if len(cur) == 0 {
			return nil
		}
		sort.Slice(cur, func(i, j int) bool { return cur[i].ID < cur[j].ID })
		var ids []string
		for _, g := range cur {
			ids = append(ids, strconv.Itoa(g.ID))
		}
		key := strings.Join(ids, ",")
		if key == lastKey {
			same++
		} else {
			same, lastKey = 0, key
		}
		last = cur
		if same >= 400 { // the same goroutines for 400 polls (>= 2 s of sleeping): they are not going away
			return last
		}
		time.Sleep(5 * time.Millisecond)
	}
	return last
}

// ---------------------------------------------------------------------------
// small helpers shared by the checks

// e2EventID returns the verif.id of an event received by the fake Honeycomb.
func e2EventID(data map[string]any) string {
	s, _ := verifkit.AsString(data[e2IDField])
	return s
}

// e2EventNode returns the verif.node attribute (-1 if absent/not a number).
func e2EventNode(data map[string]any) int {
	s, ok := verifkit.AsString(data[e2NodeAttr])
	if !ok {
		return -1
	}
	n, err := strconv.Atoi(s)
	if err != nil {
		return -1
	}
	return n
}

// e2SameValue compares a posted JSON value with a received wire value.
func e2SameValue(posted, got any) bool {
	switch p := posted.(type) {
	case string:
		g, ok := verifkit.AsString(got)
		return ok && g == p
	case bool:
		g, ok := verifkit.AsBool(got)
		return ok && g == p
	case int:
		g, ok := verifkit.AsInt64(got)
		return ok && g == int64(p)
	case int64:
		g, ok := verifkit.AsInt64(got)
		return ok && g == p
	case float64:
		g, ok := verifkit.AsFloat64(got)
		return ok && g == p
	}
	return fmt.Sprint(posted) == fmt.Sprint(got)
}

// e2CopyMap returns a shallow copy of a witness map.
func e2CopyMap(m map[string]any) map[string]any {
	out := make(map[string]any, len(m)+4)
	for k, v := range m {
		out[k] = v
	}
	return out
}

// ---------------------------------------------------------------------------
// config reload on a MockConfig (additive; used by C36)

// ReloadConfig changes node i's MockConfig and notifies the components the way
// a reload of the file config does: the mutation is made under the mock's
// write lock while no callback is running, then every registered reload
// callback is called (from this goroutine, no lock held), except the
// ConfigWatcher's. MockConfig.Reload itself is not used: the ConfigWatcher's
// callback publishes "cfg_update", its own subscription answers with
// Config.Reload(), and MockConfig - unlike the file config, which compares
// hashes and does nothing - would run all callbacks again from another
// goroutine at an unknown time (with ConfigReloadInterval 0: forever).
// Callers must not call ReloadConfig concurrently for one node.
func (c *e2Cluster) ReloadConfig(i int, mutate func(cfg *config.MockConfig)) {
	cfg := c.Nodes[i].Cfg
	cfg.Mux.Lock()
	mutate(cfg)
	cfg.Mux.Unlock()
	cfg.Mux.RLock()
	cbs := append([]config.ConfigReloadCallback(nil), cfg.Callbacks...)
	cfg.Mux.RUnlock()
	for _, cb := range cbs {
		name := runtime.FuncForPC(reflect.ValueOf(cb).Pointer()).Name()
		if strings.Contains(name, "configwatcher") {
			continue
		}
		cb("verif-cfg", "verif-rules")
	}
}

// ---------------------------------------------------------------------------
// a request kept in flight (additive; used by C36)

// e2HeldRequest is a POST /1/batch/<dataset> written by hand on a TCP
// connection: headers and the first half of the body are sent by
// e2HoldBatch, the rest by Finish.
type e2HeldRequest struct {
	conn  net.Conn
	rest  []byte
	Spans []e2Span
}

// HoldBatch opens a connection to node i's incoming listener and sends the
// request line, the headers and half of the JSON body.
func (c *e2Cluster) HoldBatch(i int, apiKey, dataset string, spans []e2Span) (*e2HeldRequest, error) {
	type ev struct {
		Time       string         `json:"time,omitempty"`
		SampleRate int            `json:"samplerate,omitempty"`
		Data       map[string]any `json:"data"`
	}
	evs := make([]ev, len(spans))
	for k, s := range spans {
		evs[k] = ev{SampleRate: s.SampleRate, Data: s.Data()}
		if !s.Time.IsZero() {
			evs[k].Time = s.Time.UTC().Format(time.RFC3339Nano)
		}
	}
	body, err := json.Marshal(evs)
	if err != nil {
		return nil, err
	}
	addr := c.Nodes[i].HTTPAddr
	conn, err := net.DialTimeout("tcp", addr, 5*time.Second)
	if err != nil {
		return nil, err
	}
	head := fmt.Sprintf("POST /1/batch/%s HTTP/1.1\r\nHost: %s\r\nUser-Agent: verif-e2-held\r\nContent-Type: application/json\r\nX-Honeycomb-Team: %s\r\nContent-Length: %d\r\nConnection: close\r\n\r\n",
		url.PathEscape(dataset), addr, apiKey, len(body))
	half := len(body) / 2
	if _, err := conn.Write(append([]byte(head), body[:half]...)); err != nil {
		conn.Close()
		return nil, err
	}
	return &e2HeldRequest{conn: conn, rest: body[half:], Spans: spans}, nil
}

// Finish sends the rest of the body and reads the response.
func (h *e2HeldRequest) Finish() e2PostResult {
	defer h.conn.Close()
	h.conn.SetDeadline(time.Now().Add(e2PollBound))
	if _, err := h.conn.Write(h.rest); err != nil {
		return e2PostResult{Err: err}
	}
	resp, err := http.ReadResponse(bufio.NewReader(h.conn), nil)
	if err != nil {
		return e2PostResult{Err: err}
	}
	defer resp.Body.Close()
	b, _ := io.ReadAll(resp.Body)
	res := e2PostResult{HTTPStatus: resp.StatusCode, Body: string(b)}
	var sts []struct {
		Status int `json:"status"`
	}
	if json.Unmarshal(b, &sts) == nil {
		for _, s := range sts {
			res.Statuses = append(res.Statuses, s.Status)
		}
	}
	return res
}

// ListenerClosed reports whether node i's incoming listener refuses new
// connections (http.Server.Shutdown closes the listeners first).
func (c *e2Cluster) ListenerClosed(i int) bool {
	conn, err := net.DialTimeout("tcp", c.Nodes[i].HTTPAddr, time.Second)
	if err != nil {
		return true
	}
	conn.Close()
	return false
}
