//go:build verif

package app

// C17, unit "cluster": every span of a trace entering any node of a stably
// configured cluster reaches the collector of the one owner after at most one
// forwarding hop, and no node forwards a span to itself. (The sharder-level
// agreement under permutation is the unit "sharder", in package sharder.)

import (
	"fmt"
	"sort"
	"strings"
	"sync"
	"testing"
	"time"

	"github.com/honeycombio/refinery/internal/verifkit"
)

func TestVerif_C17_Cluster(t *testing.T) {
	run := verifkit.Start(t, "C17", "cluster")
	defer run.Finish()
	run.Rule("a case = one 2- or 3-node cluster (each node's peer list in a different order: others first, self last) and ~25-60 traces of 1-5 spans whose spans enter PRNG-chosen nodes; non-trivial when a trace is observed at Honeycomb; distinct = (cluster size, owner, set of entry nodes of the trace)")
	run.Assume("the node whose collector handled a span is read from the verif.node AdditionalAttributes value on the span as received by the fake Honeycomb; forwarding hops are read from the requests the nodes' peer transports wrote to their sockets")
	run.Assume("the sampler keeps everything, so every span that reaches a collector is seen at Honeycomb after the graceful stop")

	run.Cases("cluster", run.N(3, 150), func(ci int, rng *verifkit.Rand) {
		nNodes := 2 + rng.Intn(2)
		cl, err := e2Start(e2Options{Nodes: nNodes})
		if err != nil {
			t.Fatalf("harness: cluster did not start: %v", err)
		}
		defer cl.Close()
		stopped := false
		defer func() {
			if !stopped {
				cl.Stop()
			}
		}()

		// ---- workload
		type spanInfo struct {
			span  e2Span
			entry int
		}
		nTraces := rng.Range(25, 60)
		spans := map[string]*spanInfo{}
		traceSpans := map[string][]string{}
		var traceIDs []string
		batches := map[string][]e2Span{} // key: node|apikey|dataset|seq
		var batchOrder []string
		seq := 0
		now := time.Now().UTC().Truncate(time.Millisecond)
		for ti := 0; ti < nTraces; ti++ {
			tid := fmt.Sprintf("c17-%d-%d-%s", ci, ti, rng.Hex(8+rng.Intn(17)))
			traceIDs = append(traceIDs, tid)
			k := rng.Range(1, 5)
			hasRoot := rng.Chance(0.7)
			rootPos := rng.Intn(k)
			// entry pattern: all on one node, or spread
			fixed := -1
			if rng.Chance(0.35) {
				fixed = rng.Intn(nNodes)
			}
			for si := 0; si < k; si++ {
				id := fmt.Sprintf("%s/s%d", tid, si)
				sp := e2Span{ID: id, TraceID: tid, Time: now.Add(time.Duration(si) * time.Millisecond),
					Fields: map[string]any{"name": "span" + fmt.Sprint(si)}}
				if !(hasRoot && si == rootPos) {
					sp.ParentID = "p" + rng.Hex(6)
				}
				entry := fixed
				if entry < 0 {
					entry = rng.Intn(nNodes)
				}
				spans[id] = &spanInfo{span: sp, entry: entry}
				traceSpans[tid] = append(traceSpans[tid], id)
			}
		}
		// group the spans into batches of 1..8 per entry node, in shuffled order
		var all []string
		for id := range spans {
			all = append(all, id)
		}
		sort.Strings(all)
		verifkit.Shuffle(rng, all)
		perNode := map[int][]string{}
		for _, id := range all {
			perNode[spans[id].entry] = append(perNode[spans[id].entry], id)
		}
		for node := 0; node < nNodes; node++ {
			ids := perNode[node]
			for len(ids) > 0 {
				n := rng.Range(1, 8)
				if n > len(ids) {
					n = len(ids)
				}
				key := fmt.Sprintf("%d|%d", node, seq)
				seq++
				for _, id := range ids[:n] {
					batches[key] = append(batches[key], spans[id].span)
				}
				batchOrder = append(batchOrder, key)
				ids = ids[n:]
			}
		}
		verifkit.Shuffle(rng, batchOrder)

		// ---- ownership as every node's real sharder sees it (peer lists are
		// permutations of each other)
		owner := map[string]int{}
		for _, tid := range traceIDs {
			o0, addr0 := cl.OwnerOf(0, tid)
			if o0 < 0 {
				run.Violation("C17/cluster/owner-not-a-peer", "WhichShard returned an address that is not in the peer list",
					map[string]any{"trace": tid, "answer": addr0, "nodes": nNodes})
			}
			for a := 1; a < nNodes; a++ {
				oa, addra := cl.OwnerOf(a, tid)
				if addra != addr0 {
					run.Violation("C17/cluster/nodes-disagree-on-owner", "two nodes with the same peer set name different owners for one trace id",
						map[string]any{"trace": tid, "node0": addr0, fmt.Sprintf("node%d", a): addra})
				}
				_ = oa
			}
			owner[tid] = o0
		}

		// ---- drive: post all batches from a few concurrent clients
		base := cl.Snapshot("span_processed")
		var wg sync.WaitGroup
		var mu sync.Mutex
		postFailed := ""
		work := make(chan string, len(batchOrder))
		for _, k := range batchOrder {
			work <- k
		}
		close(work)
		for w := 0; w < 3; w++ {
			wg.Add(1)
			go func() {
				defer wg.Done()
				for k := range work {
					var node int
					fmt.Sscanf(k, "%d|", &node)
					res := cl.PostBatch(node, false, e2KeyA, "c17", batches[k])
					if !res.AllAccepted(len(batches[k])) {
						mu.Lock()
						postFailed = fmt.Sprintf("batch %s: err=%v http=%d body=%s", k, res.Err, res.HTTPStatus, res.Body)
						mu.Unlock()
					}
				}
			}()
		}
		wg.Wait()
		if postFailed != "" {
			run.Inconclusive("a batch was not accepted: " + postFailed)
			return
		}
		if !cl.WaitPeerTrafficDrained() {
			run.Inconclusive("peer traffic did not drain")
			return
		}
		if !cl.WaitCollectorsIdle(base, int64(len(spans))) {
			run.Inconclusive(fmt.Sprintf("collectors did not become idle: processed %d of %d spans", cl.Sum("span_processed")-base["span_processed"], len(spans)))
			return
		}
		counters := cl.Snapshot("incoming_router_peer", "peer_router_peer", "incoming_router_span", "peer_router_span")
		if err := cl.Stop(); err != nil {
			run.Inconclusive("graceful stop failed: " + err.Error())
			return
		}
		stopped = true

		// ---- oracle 1: where each span was collected
		seenNode := map[string][]int{}
		for _, ev := range cl.Honey.Events() {
			id := e2EventID(ev.Data)
			if _, ok := spans[id]; !ok {
				continue
			}
			seenNode[id] = append(seenNode[id], e2EventNode(ev.Data))
		}
		run.Count("spans_posted", int64(len(spans)))
		run.Count("spans_seen_at_honeycomb", int64(len(seenNode)))
		wantForwarded := 0
		for _, tid := range traceIDs {
			entries := map[int]bool{}
			collectors := map[int]bool{}
			for _, id := range traceSpans[tid] {
				entries[spans[id].entry] = true
				if spans[id].entry != owner[tid] {
					wantForwarded++
				}
				for _, n := range seenNode[id] {
					collectors[n] = true
					if n != owner[tid] {
						run.Violation("C17/cluster/span-collected-by-non-owner", "a span was handled by the collector of a node that is not the trace's owner",
							map[string]any{"span": id, "trace": tid, "entry": spans[id].entry, "owner": owner[tid], "collected_on": n, "nodes": nNodes})
					}
				}
			}
			if len(collectors) > 1 {
				run.Violation("C17/cluster/trace-split-across-collectors", "spans of one trace were handled by the collectors of different nodes",
					map[string]any{"trace": tid, "owner": owner[tid], "collectors": fmt.Sprint(collectors)})
			}
			if len(collectors) > 0 {
				var es []string
				for e := range entries {
					es = append(es, fmt.Sprint(e))
				}
				sort.Strings(es)
				run.Nontrivial(fmt.Sprintf("n%d/owner%d/entries%s", nNodes, owner[tid], strings.Join(es, ",")))
			}
		}

		// ---- oracle 2: hops, from the peer transports' sockets
		hops := map[string]int{}
		for _, w := range cl.WireRequests() {
			if w.Kind != "peer" {
				continue
			}
			if w.Dest == cl.Nodes[w.Node].PeerAddr || w.Dest == cl.Nodes[w.Node].HTTPAddr {
				run.Violation("C17/cluster/self-forward", "a node sent a peer request to its own address",
					map[string]any{"node": w.Node, "dest": w.Dest, "path": w.Path, "events": len(w.Events)})
			}
			for _, ev := range w.Events {
				id := e2EventID(ev.Data)
				si, ok := spans[id]
				if !ok {
					continue
				}
				hops[id]++
				o := owner[si.span.TraceID]
				if o >= 0 && w.Dest != cl.Nodes[o].PeerAddr {
					run.Violation("C17/cluster/forwarded-to-non-owner", "a span was forwarded to a peer that is not the trace's owner",
						map[string]any{"span": id, "from": w.Node, "dest": w.Dest, "owner_addr": cl.Nodes[o].PeerAddr})
				}
				if w.Node == o {
					run.Violation("C17/cluster/owner-forwarded-its-own-span", "the owning node forwarded a span of its own trace",
						map[string]any{"span": id, "from": w.Node, "dest": w.Dest})
				}
			}
		}
		run.Count("peer_hops_observed", int64(len(hops)))
		for id, h := range hops {
			if h > 1 {
				run.Violation("C17/cluster/more-than-one-hop", "a span was forwarded between nodes more than once",
					map[string]any{"span": id, "hops": h, "entry": spans[id].entry, "owner": owner[spans[id].span.TraceID]})
			}
		}
		for id, si := range spans {
			o := owner[si.span.TraceID]
			if si.entry == o && hops[id] > 0 {
				run.Violation("C17/cluster/forwarded-though-entry-is-owner", "a span that entered on its owner was forwarded", map[string]any{"span": id, "owner": o})
			}
			if si.entry != o && hops[id] == 0 && len(seenNode[id]) > 0 {
				run.Violation("C17/cluster/not-forwarded-though-entry-is-not-owner", "a span that entered on a non-owner was collected without being forwarded",
					map[string]any{"span": id, "entry": si.entry, "owner": o, "collected_on": seenNode[id]})
			}
		}
		// ---- oracle 3: the router counters the design names
		if counters["peer_router_peer"] != 0 {
			run.Violation("C17/cluster/second-hop-counter", "a peer router forwarded a span again (peer_router_peer > 0)", counters)
		}
		if counters["incoming_router_peer"] != int64(wantForwarded) {
			run.Violation("C17/cluster/forward-count-mismatch", "incoming_router_peer differs from the number of spans whose entry node is not the owner",
				map[string]any{"counters": counters, "want_forwarded": wantForwarded})
		}
		if ci == 0 {
			run.Sample(map[string]any{"nodes": nNodes, "traces": nTraces, "spans": len(spans), "forwarded": wantForwarded, "counters": counters})
		}
		if lost := len(spans) - len(seenNode); lost > 0 {
			// not this property's subject (C02), but the case did not observe
			// what it set out to observe
			run.Inconclusive(fmt.Sprintf("%d accepted spans were not seen at Honeycomb after the graceful stop", lost))
		}
	})
}
