//go:build verif

package transmit

import (
	"context"
	"crypto/sha256"
	"encoding/hex"
	"encoding/json"
	"fmt"
	"io"
	"net"
	"net/http"
	"net/http/httptest"
	"net/url"
	"sort"
	"strings"
	"sync"
	"testing"
	"time"

	"github.com/jonboulle/clockwork"
	"github.com/klauspost/compress/zstd"
	msgpack "github.com/vmihailenco/msgpack/v5"

	"github.com/honeycombio/refinery/config"
	"github.com/honeycombio/refinery/internal/verifkit"
	"github.com/honeycombio/refinery/logger"
	"github.com/honeycombio/refinery/metrics"
	"github.com/honeycombio/refinery/types"
)

// C26: transmission delivers each event once to its own destination within limits.
//
// A real DirectTransmission (fake clock, own http.Transport) sends to scripted
// httptest servers (one per API host). Every server logs every request it
// receives *before* answering it: host, escaped path, X-Honeycomb-Team, body
// hash, and - from an independent zstd+msgpack decode - the verif.id and wire
// size of every event in the body. After Stop returns an offline checker
// compares the request logs with the enqueue log.

// ---------------------------------------------------------------------------
// adapters: the only places that touch unexported identifiers of the package.
// Used for synchronisation (quiescence) and classification only, never as the
// observation a verdict rests on.

func c26Pending(d *DirectTransmission) []*types.Event {
	d.batchMutex.RLock()
	batches := make([]*eventBatch, 0, len(d.eventBatches))
	for _, b := range d.eventBatches {
		batches = append(batches, b)
	}
	d.batchMutex.RUnlock()
	var out []*types.Event
	for _, b := range batches {
		b.mutex.Lock()
		out = append(out, b.events...)
		b.mutex.Unlock()
	}
	return out
}

// limits as stated by the property (decimal MB, like the Honeycomb API limits);
// deliberately not the package constants.
const (
	c26MaxBody  = 5_000_000
	c26MaxEvent = 1_000_000
)

// ---------------------------------------------------------------------------
// metrics recorder (the *_queued_items updown value is read here)

type c26Metrics struct {
	mu     sync.Mutex
	updown map[string]int64
	count  map[string]int64
	histN  map[string]int64
	gauge  map[string]float64
}

func newC26Metrics() *c26Metrics {
	return &c26Metrics{updown: map[string]int64{}, count: map[string]int64{}, histN: map[string]int64{}, gauge: map[string]float64{}}
}
func (m *c26Metrics) Register(metrics.Metadata) {}
func (m *c26Metrics) Increment(name string)     { m.mu.Lock(); m.count[name]++; m.mu.Unlock() }
func (m *c26Metrics) Gauge(name string, v float64) {
	m.mu.Lock()
	m.gauge[name] = v
	m.mu.Unlock()
}
func (m *c26Metrics) Count(name string, n int64) { m.mu.Lock(); m.count[name] += n; m.mu.Unlock() }
func (m *c26Metrics) Histogram(name string, _ float64) {
	m.mu.Lock()
	m.histN[name]++
	m.mu.Unlock()
}
func (m *c26Metrics) Up(name string)   { m.mu.Lock(); m.updown[name]++; m.mu.Unlock() }
func (m *c26Metrics) Down(name string) { m.mu.Lock(); m.updown[name]--; m.mu.Unlock() }
func (m *c26Metrics) Get(name string) (float64, bool) {
	m.mu.Lock()
	defer m.mu.Unlock()
	if v, ok := m.updown[name]; ok {
		return float64(v), true
	}
	if v, ok := m.count[name]; ok {
		return float64(v), true
	}
	v, ok := m.gauge[name]
	return v, ok
}
func (m *c26Metrics) Store(name string, v float64) { m.Gauge(name, v) }

func (m *c26Metrics) bySuffix(which map[string]int64, suffix string) (int64, []string) {
	m.mu.Lock()
	defer m.mu.Unlock()
	var sum int64
	var names []string
	for k, v := range which {
		if strings.HasSuffix(k, suffix) {
			sum += v
			names = append(names, k)
		}
	}
	return sum, names
}

// activity grows with every counter increment and histogram observation.
func (m *c26Metrics) activity() int64 {
	m.mu.Lock()
	defer m.mu.Unlock()
	var n int64
	for _, v := range m.count {
		n += v
	}
	for _, v := range m.histN {
		n += v
	}
	return n
}

func (m *c26Metrics) staleTicks() int64 {
	n, _ := m.bySuffix(m.histN, "_stale_dispatch_time")
	return n
}

// ---------------------------------------------------------------------------
// plan

type c26Action struct {
	Kind   string `json:"kind"`
	Status int    `json:"status,omitempty"`
	RA     string `json:"retry_after,omitempty"` // literal, or "@+<sec>" = HTTP-date relative to the fake clock, "-" = absent
	Msgp   bool   `json:"msgpack,omitempty"`
	Arg    int    `json:"arg,omitempty"`
}

// c26RL is the "rate-limit window" script of a host: all-202 until the window
// is triggered (by the Trigger-th request, or, Trigger 0, by the first request
// after Stop was called), then 429/503 with Retry-After R seconds for every
// request until the fake clock has reached (trigger instant + R s), then
// all-202 for good. A sender that waits out Retry-After on the (fake) clock is
// therefore always accepted on its second attempt.
type c26RL struct {
	Trigger int `json:"trigger"`
	Status  int `json:"status"`
	R       int `json:"retry_after_s"`
}

type c26Dest struct {
	Host    int    `json:"host"` // index of fake server; <0: unobservable destination
	HostURL string `json:"-"`
	Unobs   string `json:"unobservable,omitempty"`
	Key     string `json:"key"`
	Dataset string `json:"dataset"`
}

type c26Event struct {
	ID      string `json:"id"`
	Dest    int    `json:"dest"`
	Pad     int    `json:"pad"`
	Pred    int    `json:"predicted_size,omitempty"`
	Class   string `json:"class"`           // deliverable | oversize | unmarshalable | unobservable
	Group   int    `json:"group,omitempty"` // large profile: member of a body-total group
	Step    int    `json:"step"`
	EnqAtNs int64  `json:"enq_at_ns"` // fake-clock offset from start (lower bound for racy steps)
	ev      *types.Event
}

type c26Step struct {
	Events  []int `json:"events"`
	Workers int   `json:"workers"`
	Racy    bool  `json:"racy"` // enqueue concurrently with the clock reaching the next tick
	AdvNs   int64 `json:"advance_ns"`
}

type c26Plan struct {
	Profile     string        `json:"profile"`
	MaxBatch    int           `json:"max_batch"`
	BatchTO     time.Duration `json:"batch_timeout"`
	SendTO      time.Duration `json:"send_timeout"`
	Compress    bool          `json:"compress"`
	Peer        bool          `json:"peer"`
	ExtraHdr    bool          `json:"extra_headers"`
	HostPrompt  []bool        `json:"host_prompt"`
	RateLimit   []*c26RL      `json:"rate_limit"`
	Scripts     [][]c26Action `json:"-"`
	Palette     []string      `json:"palette"`
	Dests       []c26Dest     `json:"dests"`
	Events      []*c26Event   `json:"events"`
	Steps       []c26Step     `json:"steps"`
	HasHang     bool          `json:"has_hang"`
	StartOffset time.Duration `json:"start_offset"`
}

var c26Datasets = []string{"ds", "my dataset", "team/prod", "dätäset-ü", "pct%41lit", "q?x#frag", "plus+and&amp", "a.b", "UPPER_lower-1"}

var c26PadBase = func() string {
	var b strings.Builder
	for b.Len() < 5_300_000 {
		fmt.Fprintf(&b, "pad-%06d-abcdefghijklmnopqrstuvwxyz0123456789;", b.Len())
	}
	return b.String()
}()

var c26PromptKinds = []string{"per-event", "short", "long", "garbage", "empty", "http-error", "retry-no-sleep", "close"}
var c26SlowKinds = []string{"retry-sleep", "retry-sleep", "hang"}

func c26Plan_(rng *verifkit.Rand, caseNo int, overhead int, thorough bool) *c26Plan {
	p := &c26Plan{}
	nLarge := 10 // per cent; 5 MB bodies are expensive under the race detector
	switch x := rng.Intn(100); {
	case x < 65-nLarge:
		p.Profile = "small"
	case x < 82-nLarge:
		p.Profile = "medium"
	case x < 82:
		p.Profile = "large"
	default:
		p.Profile = "hang"
	}
	if thorough && p.Profile == "large" && rng.Chance(0.15) {
		p.Profile = "large-hang"
	}
	p.BatchTO = verifkit.Pick(rng, 20*time.Millisecond, 100*time.Millisecond, 400*time.Millisecond, time.Second)
	p.Compress = rng.Bool()
	p.Peer = rng.Chance(0.3)
	p.ExtraHdr = rng.Chance(0.25)
	p.StartOffset = time.Duration(rng.Intn(1_000_000_000))
	p.HasHang = strings.Contains(p.Profile, "hang")
	// The client send timeout is real time, so it is kept far away from anything
	// that happens; a "timeout" is produced by the fake host expiring the read
	// deadline of the client's connection (see c26Conns).
	p.SendTO = 30 * time.Second

	// fault palette
	nPal := rng.Intn(4)
	if p.HasHang {
		p.Palette = append(p.Palette, "hang")
	}
	for len(p.Palette) < nPal {
		var k string
		if rng.Chance(0.6) {
			k = verifkit.Pick(rng, c26PromptKinds...)
		} else {
			k = verifkit.Pick(rng, "retry-sleep", "retry-sleep", "retry-no-sleep", "hang")
		}
		dup := false
		for _, q := range p.Palette {
			dup = dup || q == k
		}
		if !dup {
			p.Palette = append(p.Palette, k)
		}
	}

	nHosts := rng.Range(1, 3)
	for h := 0; h < nHosts; h++ {
		var rl *c26RL
		// not with 5 MB bodies: a later sub-batch waits for the earlier one's retry
		if !strings.HasPrefix(p.Profile, "large") && rng.Chance(0.22) {
			rl = &c26RL{Trigger: verifkit.Pick(rng, 0, 0, 0, 1, 1, 2, 3), Status: verifkit.Pick(rng, 429, 503), R: verifkit.Pick(rng, 1, 5, 20, 45, 59, 59)}
		}
		p.RateLimit = append(p.RateLimit, rl)
		prompt := rng.Chance(0.6) && rl == nil
		p.HostPrompt = append(p.HostPrompt, prompt)
		var kinds []string
		for _, k := range p.Palette {
			slow := k == "retry-sleep" || k == "hang"
			if !(slow && prompt) {
				kinds = append(kinds, k)
			}
		}
		pOK := verifkit.Pick(rng, 0.3, 0.6, 0.85)
		script := make([]c26Action, 64)
		for i := range script {
			if len(kinds) == 0 || rng.Chance(pOK) {
				script[i] = c26Action{Kind: "ok", Msgp: rng.Chance(0.3)}
			} else {
				script[i] = c26MakeAction(rng, verifkit.Pick(rng, kinds...))
			}
		}
		p.Scripts = append(p.Scripts, script)
	}

	// destinations
	nDest := rng.Range(1, 4)
	seen := map[string]bool{}
	for len(p.Dests) < nDest {
		d := c26Dest{Host: rng.Intn(nHosts), Key: verifkit.Pick(rng, "key-A", "key-B", "hcaik_01234567890123456789"), Dataset: verifkit.Pick(rng, c26Datasets...)}
		if rng.Chance(0.04) {
			d.Dataset = verifkit.Pick(rng, ".", "..")
		}
		k := fmt.Sprint(d.Host, d.Key, d.Dataset)
		if seen[k] {
			continue
		}
		seen[k] = true
		p.Dests = append(p.Dests, d)
	}
	if rng.Chance(0.15) {
		p.Dests = append(p.Dests, c26Dest{Host: -1, Unobs: verifkit.Pick(rng, "refused", "bad-url", "no-scheme"), Key: "key-A", Dataset: "ds"})
	}

	id := 0
	newEv := func(dest, pad int, class string) *c26Event {
		e := &c26Event{ID: fmt.Sprintf("c%05d-e%05d", caseNo, id), Dest: dest, Pad: pad, Class: class}
		id++
		if pad >= 70_000 {
			e.Pred = overhead + pad
			if e.Pred > c26MaxEvent && class == "deliverable" {
				e.Class = "oversize"
			}
		}
		if p.Dests[dest].Host < 0 {
			e.Class = "unobservable"
		}
		p.Events = append(p.Events, e)
		return e
	}

	switch p.Profile {
	case "small", "hang":
		p.MaxBatch = verifkit.Pick(rng, 1, 2, 3, 5, 10, 50)
		n := rng.Range(3, 60)
		if p.Profile == "hang" {
			n = rng.Range(2, 16)
		}
		for i := 0; i < n; i++ {
			class := "deliverable"
			if rng.Chance(0.02) {
				class = "unmarshalable"
			}
			newEv(rng.Intn(len(p.Dests)), verifkit.Pick(rng, 0, 1, 10, 200, 2000, 40_000), class)
		}
		if rng.Chance(0.06) {
			// a single event that exceeds even the request limit, queued among the
			// small events of one destination (never transmitted, so cheap)
			newEv(rng.Intn(len(p.Dests)), c26Huge(rng)-overhead, "deliverable")
			if rng.Bool() {
				verifkit.Shuffle(rng, p.Events)
			}
		}
	case "medium":
		p.MaxBatch = verifkit.Pick(rng, 2, 3, 5, 10, 50)
		n := rng.Range(3, 20)
		for i := 0; i < n; i++ {
			newEv(rng.Intn(len(p.Dests)), verifkit.Pick(rng, 5, 300, 3000, 3000, 65_000, 70_000, 150_000, 400_000), "deliverable")
		}
	default: // large, large-hang
		k := rng.Range(6, 7)
		p.MaxBatch = verifkit.Pick(rng, k, k, k+1, 8, 50)
		// one destination receives k events whose body lands on a chosen total
		// around the 5 MB limit; sprinkled with boundary-size events.
		nGroups := 1
		if thorough && rng.Chance(0.3) {
			nGroups = 2
		}
		groupDest := map[int]bool{}
		otherDest := func() int {
			// mostly keep other traffic away from a group's destination so that the
			// group meets in one batch on its own; sometimes share it
			for try := 0; try < 8; try++ {
				d := rng.Intn(len(p.Dests))
				if !groupDest[d] || rng.Chance(0.2) {
					return d
				}
			}
			return rng.Intn(len(p.Dests))
		}
		for g := 0; g < nGroups; g++ {
			dest := rng.Intn(len(p.Dests))
			for p.Dests[dest].Host < 0 {
				dest = rng.Intn(len(p.Dests))
			}
			groupDest[dest] = true
			target := c26MaxBody + verifkit.Pick(rng, -100_000, -5, -4, -1, 0, 1, 1, 2, 3, 4, 5, 8, 20, 100_000)
			var sizes []int
			for try := 0; try < 1000; try++ {
				sizes = sizes[:0]
				sum := 0
				for j := 0; j < k-1; j++ {
					s := rng.Range(700_000, 960_000)
					sizes = append(sizes, s)
					sum += s
				}
				last := target - 1 - sum // 1-byte fixarray header for k < 16
				if last >= 200_000 && last <= c26MaxEvent {
					sizes = append(sizes, last)
					break
				}
			}
			if len(sizes) != k {
				sizes = []int{800_000, 800_000, 800_000}
			}
			verifkit.Shuffle(rng, sizes)
			for _, s := range sizes {
				newEv(dest, s-overhead, "deliverable").Group = g + 1
			}
		}
		nb := rng.Range(0, 2)
		for i := 0; i < nb; i++ {
			sz := c26MaxEvent + verifkit.Pick(rng, -1000, -1, 0, 0, 1, 1, 2, 48_577, 200_000)
			newEv(otherDest(), sz-overhead, "deliverable")
		}
		ns := rng.Range(0, 6)
		for i := 0; i < ns; i++ {
			newEv(otherDest(), verifkit.Pick(rng, 0, 100, 5000), "deliverable")
		}
		if rng.Chance(0.35) {
			newEv(rng.Intn(len(p.Dests)), c26Huge(rng)-overhead, "deliverable")
		}
		// keep grouped events adjacent half of the time, interleave otherwise
		if rng.Bool() {
			verifkit.Shuffle(rng, p.Events)
		}
	}

	// steps
	nSteps := rng.Range(1, 8)
	p.Steps = make([]c26Step, nSteps)
	groupStep := map[int]int{}
	for i, e := range p.Events {
		s := rng.Intn(nSteps)
		if rng.Chance(0.5) {
			s = i * nSteps / len(p.Events) // keeps enqueue order roughly
		}
		if e.Group > 0 {
			// most groups are enqueued within one step so that they meet in one batch
			gs, ok := groupStep[e.Group]
			if !ok {
				gs = -1
				if rng.Chance(0.75) {
					gs = s
				}
				groupStep[e.Group] = gs
			}
			if gs >= 0 {
				s = gs
			}
		}
		p.Steps[s].Events = append(p.Steps[s].Events, i)
	}
	bt := int64(p.BatchTO)
	for i := range p.Steps {
		p.Steps[i].Workers = verifkit.Pick(rng, 1, 1, 2, 4)
		p.Steps[i].Racy = rng.Chance(0.25)
		p.Steps[i].AdvNs = verifkit.Pick(rng, 0, 1, bt/16, bt/8+3, bt/4, bt/4-1, bt/2, bt, bt+bt/4, bt+bt/3, 2*bt)
	}
	return p
}

// c26Huge picks the serialised size of a single event around and above the 5 MB request limit.
func c26Huge(rng *verifkit.Rand) int {
	return c26MaxBody + verifkit.Pick(rng, -6, -4, 0, 1, 1, 5, 100_000, 200_000)
}

// c26HighCardPlan: high-cardinality member of the dispatch-deadline family. More
// destinations than the dispatcher has pool workers (501..1200 datasets over 1-2
// promptly answering hosts and 1-2 keys) each get a partial batch at one fake
// instant that lies strictly inside a dispatcher tick interval; the clock is then
// walked tick by tick to 1.25 x BatchTimeout + 1 ns after that instant (not a tick
// instant), where nothing may be pending any more, and on.
func c26HighCardPlan(rng *verifkit.Rand, caseNo int) *c26Plan {
	p := &c26Plan{Profile: "highcard", SendTO: 30 * time.Second}
	p.BatchTO = verifkit.Pick(rng, 100*time.Millisecond, 400*time.Millisecond, time.Second)
	p.MaxBatch = verifkit.Pick(rng, 2, 3, 50)
	p.Compress = rng.Bool()
	p.Peer = rng.Chance(0.3)
	p.StartOffset = time.Duration(rng.Intn(1_000_000_000))
	nHosts := rng.Range(1, 2)
	for h := 0; h < nHosts; h++ {
		p.HostPrompt = append(p.HostPrompt, true)
		p.RateLimit = append(p.RateLimit, nil)
		p.Scripts = append(p.Scripts, nil) // all-202
	}
	n := verifkit.Pick(rng, 501, 502, 520, rng.Range(503, 800), rng.Range(800, 1200), rng.Range(1001, 1200))
	keys := []string{"key-A", "key-B"}[:rng.Range(1, 2)]
	for i := 0; i < n; i++ {
		p.Dests = append(p.Dests, c26Dest{Host: i % nHosts, Key: keys[(i/nHosts)%len(keys)], Dataset: fmt.Sprintf("hc-%04d", i)})
	}
	for i := 0; i < n; i++ {
		p.Events = append(p.Events, &c26Event{ID: fmt.Sprintf("h%05d-e%05d", caseNo, len(p.Events)), Dest: i, Pad: verifkit.Pick(rng, 0, 10, 200), Class: "deliverable"})
		if p.MaxBatch > 2 && rng.Chance(0.1) {
			p.Events = append(p.Events, &c26Event{ID: fmt.Sprintf("h%05d-e%05d", caseNo, len(p.Events)), Dest: i, Pad: 1, Class: "deliverable"})
		}
	}
	verifkit.Shuffle(rng, p.Events)
	all := make([]int, len(p.Events))
	for i := range all {
		all[i] = i
	}
	bt := int64(p.BatchTO)
	tick := bt / 4
	off := 1 + rng.Int63()%(tick-2) // strictly inside a tick interval, and off+1ns is no tick instant either
	if rng.Chance(0.3) {
		off = verifkit.Pick(rng, int64(1), tick/2, tick-2)
	}
	pre := int64(rng.Intn(3)) * tick // 0..2 whole ticks before the burst
	p.Steps = []c26Step{
		{Workers: 1, AdvNs: pre + off},
		{Events: all, Workers: verifkit.Pick(rng, 1, 2, 4), AdvNs: bt*5/4 + 1},
		{Workers: 1, AdvNs: verifkit.Pick(rng, int64(0), tick, bt)},
	}
	return p
}

func c26MakeAction(rng *verifkit.Rand, kind string) c26Action {
	a := c26Action{Kind: kind, Msgp: rng.Chance(0.3)}
	switch kind {
	case "per-event":
		a.Arg = rng.Intn(1 << 20)
	case "short":
		a.Arg = rng.Range(1, 3)
	case "http-error":
		a.Status = verifkit.Pick(rng, 400, 401, 403, 404, 413, 500, 502, 504)
	case "retry-no-sleep":
		a.Status = verifkit.Pick(rng, 429, 503)
		a.RA = verifkit.Pick(rng, "60", "60", "61", "3600", "60.0", "0", "-1", "@-30", "@+300", "@+600")
	case "retry-sleep":
		a.Status = verifkit.Pick(rng, 429, 503)
		a.RA = verifkit.Pick(rng, "-", "0.01", "1", "59", "59", "59.9", "@+2", "@+45", "soon", "0.000001")
	}
	return a
}

// ---------------------------------------------------------------------------
// fake API hosts

type c26Req struct {
	Seq       int      `json:"seq"`
	Host      int      `json:"host"`
	Path      string   `json:"path"`
	Keys      []string `json:"team_headers"`
	Enc       string   `json:"content_encoding,omitempty"`
	CType     string   `json:"content_type,omitempty"`
	WireLen   int      `json:"wire_len"`
	BodyLen   int      `json:"body_len"`
	Hash      string   `json:"hash"`
	IDs       []string `json:"ids"`
	Sizes     []int    `json:"sizes"`
	ArrivedNs int64    `json:"arrived_at_ns"`
	Action    string   `json:"action"`
	Aborted   bool     `json:"aborted,omitempty"`
	DecodeErr string   `json:"decode_err,omitempty"`
}

type c26Log struct {
	mu   sync.Mutex
	reqs []c26Req
	seen map[string]struct{}
}

func (l *c26Log) add(r c26Req) {
	l.mu.Lock()
	r.Seq = len(l.reqs)
	l.reqs = append(l.reqs, r)
	for _, id := range r.IDs {
		l.seen[id] = struct{}{}
	}
	l.mu.Unlock()
}
func (l *c26Log) snapshot() []c26Req {
	l.mu.Lock()
	defer l.mu.Unlock()
	return append([]c26Req(nil), l.reqs...)
}
func (l *c26Log) seenCount(want func(id string) bool) int {
	l.mu.Lock()
	defer l.mu.Unlock()
	n := 0
	for id := range l.seen {
		if want(id) {
			n++
		}
	}
	return n
}

var c26Zstd = func() *zstd.Decoder {
	d, err := zstd.NewReader(nil)
	if err != nil {
		panic(err)
	}
	return d
}()

// c26Decode is the independent decoder: a minimal msgpack walker (no library
// shared with the code under test) that returns verif.id and wire size of each
// event of a batch body without copying payloads.
func c26Decode(body []byte) (ids []string, sizes []int, err error) {
	n, p, err := c26mpLen(body, 0, 0x90, 0xdc)
	if err != nil {
		return nil, nil, fmt.Errorf("array header: %w", err)
	}
	for i := 0; i < n; i++ {
		start := p
		id := ""
		fields, q, err := c26mpLen(body, p, 0x80, 0xde)
		if err != nil {
			return ids, sizes, fmt.Errorf("event %d: %w", i, err)
		}
		sawTime, sawRate, sawData := false, false, false
		for f := 0; f < fields; f++ {
			var key string
			if key, q, err = c26mpStr(body, q); err != nil {
				return ids, sizes, fmt.Errorf("event %d key: %w", i, err)
			}
			switch key {
			case "time":
				sawTime = true
			case "samplerate":
				sawRate = true
			}
			if key != "data" {
				if q, err = c26mpSkip(body, q); err != nil {
					return ids, sizes, fmt.Errorf("event %d field %q: %w", i, key, err)
				}
				continue
			}
			sawData = true
			var dn int
			if dn, q, err = c26mpLen(body, q, 0x80, 0xde); err != nil {
				return ids, sizes, fmt.Errorf("event %d data: %w", i, err)
			}
			for k := 0; k < dn; k++ {
				var dk string
				if dk, q, err = c26mpStr(body, q); err != nil {
					return ids, sizes, fmt.Errorf("event %d data key: %w", i, err)
				}
				if dk == "verif.id" {
					if id, q, err = c26mpStr(body, q); err != nil {
						return ids, sizes, fmt.Errorf("event %d verif.id: %w", i, err)
					}
				} else if q, err = c26mpSkip(body, q); err != nil {
					return ids, sizes, fmt.Errorf("event %d data field %q: %w", i, dk, err)
				}
			}
		}
		if !sawTime || !sawRate || !sawData {
			return ids, sizes, fmt.Errorf("event %d lacks time/samplerate/data", i)
		}
		p = q
		ids = append(ids, id)
		sizes = append(sizes, p-start)
	}
	if p != len(body) {
		return ids, sizes, fmt.Errorf("%d trailing bytes after %d events", len(body)-p, n)
	}
	return ids, sizes, nil
}

func c26mpNeed(b []byte, p, n int) error {
	if n < 0 || p+n > len(b) {
		return fmt.Errorf("truncated at %d (+%d of %d)", p, n, len(b))
	}
	return nil
}

func c26mpUint(b []byte, p, n int) (int, error) {
	if err := c26mpNeed(b, p, n); err != nil {
		return 0, err
	}
	v := 0
	for i := 0; i < n; i++ {
		v = v<<8 | int(b[p+i])
	}
	return v, nil
}

// c26mpLen reads an array (fix 0x90, 16-bit 0xdc) or map (fix 0x80, 16-bit 0xde) header.
func c26mpLen(b []byte, p int, fix, wide byte) (n, next int, err error) {
	if err = c26mpNeed(b, p, 1); err != nil {
		return
	}
	c := b[p]
	switch {
	case c&0xf0 == fix:
		return int(c & 0x0f), p + 1, nil
	case c == wide:
		n, err = c26mpUint(b, p+1, 2)
		return n, p + 3, err
	case c == wide+1:
		n, err = c26mpUint(b, p+1, 4)
		return n, p + 5, err
	}
	return 0, p, fmt.Errorf("unexpected type byte 0x%02x at %d", c, p)
}

func c26mpStr(b []byte, p int) (s string, next int, err error) {
	if err = c26mpNeed(b, p, 1); err != nil {
		return
	}
	c := b[p]
	var n, h int
	switch {
	case c&0xe0 == 0xa0:
		n, h = int(c&0x1f), 1
	case c == 0xd9:
		n, err = c26mpUint(b, p+1, 1)
		h = 2
	case c == 0xda:
		n, err = c26mpUint(b, p+1, 2)
		h = 3
	case c == 0xdb:
		n, err = c26mpUint(b, p+1, 4)
		h = 5
	default:
		err = fmt.Errorf("expected string, got type byte 0x%02x at %d", c, p)
	}
	if err == nil {
		err = c26mpNeed(b, p+h, n)
	}
	if err != nil {
		return "", p, err
	}
	if n > 256 {
		return "", p + h + n, nil // long values are never keys or ids
	}
	return string(b[p+h : p+h+n]), p + h + n, nil
}

func c26mpSkip(b []byte, p int) (int, error) {
	if err := c26mpNeed(b, p, 1); err != nil {
		return p, err
	}
	c := b[p]
	fixed := func(n int) (int, error) { return p + 1 + n, c26mpNeed(b, p+1, n) }
	sized := func(w, extra int) (int, error) {
		n, err := c26mpUint(b, p+1, w)
		if err != nil {
			return p, err
		}
		return p + 1 + w + extra + n, c26mpNeed(b, p+1+w, extra+n)
	}
	multi := func(n, q int) (int, error) {
		var err error
		for i := 0; i < n; i++ {
			if q, err = c26mpSkip(b, q); err != nil {
				return q, err
			}
		}
		return q, nil
	}
	switch {
	case c <= 0x7f || c >= 0xe0 || c == 0xc0 || c == 0xc2 || c == 0xc3:
		return p + 1, nil
	case c&0xf0 == 0x80:
		return multi(2*int(c&0x0f), p+1)
	case c&0xf0 == 0x90:
		return multi(int(c&0x0f), p+1)
	case c&0xe0 == 0xa0:
		return fixed(int(c & 0x1f))
	}
	switch c {
	case 0xc4, 0xd9:
		return sized(1, 0)
	case 0xc5, 0xda:
		return sized(2, 0)
	case 0xc6, 0xdb:
		return sized(4, 0)
	case 0xc7:
		return sized(1, 1)
	case 0xc8:
		return sized(2, 1)
	case 0xc9:
		return sized(4, 1)
	case 0xca, 0xce, 0xd2:
		return fixed(4)
	case 0xcb, 0xcf, 0xd3:
		return fixed(8)
	case 0xcc, 0xd0:
		return fixed(1)
	case 0xcd, 0xd1:
		return fixed(2)
	case 0xd4:
		return fixed(2)
	case 0xd5:
		return fixed(3)
	case 0xd6:
		return fixed(5)
	case 0xd7:
		return fixed(9)
	case 0xd8:
		return fixed(17)
	case 0xdc, 0xdd, 0xde, 0xdf:
		w := 2
		if c&1 == 1 {
			w = 4
		}
		n, err := c26mpUint(b, p+1, w)
		if err != nil {
			return p, err
		}
		if c >= 0xde {
			n *= 2
		}
		return multi(n, p+1+w)
	}
	return p, fmt.Errorf("invalid msgpack type byte 0x%02x at %d", c, p)
}

type c26Host struct {
	idx    int
	clock  clockwork.Clock
	t0     time.Time
	log    *c26Log
	mu     sync.Mutex
	script []c26Action
	next   int
	srv    *httptest.Server
	conns  *c26Conns

	rl        *c26RL
	rlN       int
	rlStarted bool
	rlEnd     time.Time
	stopping  bool // Stop has been called (set by the driver)
}

// rateLimit decides the answer of a rate-limit-window host at the current fake instant.
func (h *c26Host) rateLimit() c26Action {
	h.mu.Lock()
	defer h.mu.Unlock()
	now := h.clock.Now()
	h.rlN++
	if !h.rlStarted && ((h.rl.Trigger == 0 && h.stopping) || (h.rl.Trigger > 0 && h.rlN >= h.rl.Trigger)) {
		h.rlStarted = true
		h.rlEnd = now.Add(time.Duration(h.rl.R) * time.Second)
	}
	if h.rlStarted && now.Before(h.rlEnd) {
		return c26Action{Kind: "ratelimit", Status: h.rl.Status, RA: fmt.Sprint(h.rl.R)}
	}
	return c26Action{Kind: "ok"}
}

func (h *c26Host) setStopping() {
	h.mu.Lock()
	h.stopping = true
	h.mu.Unlock()
}

func (h *c26Host) nextAction() c26Action {
	h.mu.Lock()
	defer h.mu.Unlock()
	if h.next >= len(h.script) {
		return c26Action{Kind: "ok"}
	}
	a := h.script[h.next]
	h.next++
	return a
}

func (h *c26Host) ServeHTTP(w http.ResponseWriter, r *http.Request) {
	if !h.conns.known(r.RemoteAddr) {
		// not a connection of the transmission under test: other test processes on
		// this machine probe recycled loopback ports (seen: GET /version)
		h.conns.foreigner()
		http.NotFound(w, r)
		return
	}
	rec := c26Req{Host: h.idx, Path: r.URL.EscapedPath(), Keys: r.Header.Values("X-Honeycomb-Team"),
		Enc: r.Header.Get("Content-Encoding"), CType: r.Header.Get("Content-Type"), ArrivedNs: int64(h.clock.Now().Sub(h.t0))}
	var raw []byte
	var err error
	if r.ContentLength >= 0 && r.ContentLength < 64<<20 {
		raw = make([]byte, r.ContentLength)
		var n int
		n, err = io.ReadFull(r.Body, raw)
		raw = raw[:n]
		if err == nil {
			var one [1]byte
			if k, _ := r.Body.Read(one[:]); k > 0 {
				err = fmt.Errorf("body longer than Content-Length")
			}
		}
	} else {
		raw, err = io.ReadAll(r.Body)
	}
	rec.WireLen = len(raw)
	if err != nil || (r.ContentLength >= 0 && int64(len(raw)) != r.ContentLength) {
		rec.Aborted = true
		rec.Action = "aborted-read"
		h.log.add(rec)
		return
	}
	body := raw
	if rec.Enc == "zstd" {
		body, err = c26Zstd.DecodeAll(raw, nil)
		if err != nil {
			rec.DecodeErr = "zstd: " + err.Error()
		}
	} else if rec.Enc != "" {
		rec.DecodeErr = "unknown content-encoding " + rec.Enc
	}
	if rec.DecodeErr == "" {
		rec.BodyLen = len(body)
		sum := sha256.Sum256(body)
		rec.Hash = hex.EncodeToString(sum[:12])
		ids, sizes, derr := c26Decode(body)
		rec.IDs, rec.Sizes = ids, sizes
		if derr != nil {
			rec.DecodeErr = "msgpack: " + derr.Error()
		}
	}
	act := h.nextAction()
	if h.rl != nil {
		act = h.rateLimit()
	}
	rec.Action = act.Kind
	if act.Status != 0 {
		rec.Action = fmt.Sprintf("%s:%d:%s", act.Kind, act.Status, act.RA)
	}
	// logged before any answer is written: once the client has an answer
	// (or Stop has returned after a non-hanging exchange) the record exists.
	h.log.add(rec)
	c26Respond(w, r, act, len(rec.IDs), h.clock, h.conns)
}

// c26Conns knows the client side of every connection the transmission's
// transport dialled, keyed by its local address (= RemoteAddr at the host).
type c26Conns struct {
	mu      sync.Mutex
	byLocal map[string]net.Conn
	held    []net.Conn
	misses  int
	foreign int
}

func (c *c26Conns) dial(ctx context.Context, network, addr string) (net.Conn, error) {
	var d net.Dialer
	conn, err := d.DialContext(ctx, network, addr)
	if err == nil {
		c.mu.Lock()
		c.byLocal[conn.LocalAddr().String()] = conn
		c.mu.Unlock()
	}
	return conn, err
}

func (c *c26Conns) known(remote string) bool {
	c.mu.Lock()
	defer c.mu.Unlock()
	return c.byLocal[remote] != nil
}

func (c *c26Conns) foreigner() {
	c.mu.Lock()
	c.foreign++
	c.mu.Unlock()
}

func (c *c26Conns) timeout(remote string) bool {
	c.mu.Lock()
	conn := c.byLocal[remote]
	if conn == nil {
		c.misses++
	}
	c.mu.Unlock()
	if conn == nil {
		return false
	}
	return conn.SetReadDeadline(time.Unix(1, 0)) == nil
}

func (c *c26Conns) keep(conn net.Conn) {
	c.mu.Lock()
	c.held = append(c.held, conn)
	c.mu.Unlock()
}

func (c *c26Conns) closeHeld() {
	c.mu.Lock()
	for _, conn := range c.held {
		conn.Close()
	}
	c.held = nil
	c.mu.Unlock()
}

func c26Respond(w http.ResponseWriter, r *http.Request, act c26Action, n int, clock clockwork.Clock, conns *c26Conns) {
	writeList := func(statuses []int) {
		list := make([]map[string]int, len(statuses))
		for i, s := range statuses {
			list[i] = map[string]int{"status": s}
		}
		var b []byte
		if act.Msgp {
			w.Header().Set("Content-Type", "application/msgpack")
			b, _ = msgpack.Marshal(list)
		} else {
			w.Header().Set("Content-Type", "application/json")
			b, _ = json.Marshal(list)
		}
		w.WriteHeader(200)
		w.Write(b)
	}
	all := func(k, status int) []int {
		if k < 0 {
			k = 0
		}
		s := make([]int, k)
		for i := range s {
			s[i] = status
		}
		return s
	}
	switch act.Kind {
	case "ok":
		writeList(all(n, 202))
	case "per-event":
		s := all(n, 202)
		x := uint64(act.Arg) | 1
		for i := range s {
			x = x*6364136223846793005 + 1442695040888963407
			if (x>>33)%3 == 0 {
				s[i] = []int{400, 429, 500, 0, 200, 413}[(x>>40)%6]
			}
		}
		writeList(s)
	case "short":
		writeList(all(n-act.Arg, 202))
	case "long":
		writeList(all(n+2, 202))
	case "garbage":
		if act.Msgp {
			w.Header().Set("Content-Type", "application/msgpack")
		}
		w.WriteHeader(200)
		w.Write([]byte("<html>not a batch response{"))
	case "empty":
		w.WriteHeader(200)
	case "http-error", "retry-no-sleep", "retry-sleep", "ratelimit":
		if act.RA != "" && act.RA != "-" {
			ra := act.RA
			if strings.HasPrefix(ra, "@") {
				var sec int
				fmt.Sscanf(ra[1:], "%d", &sec)
				ra = clock.Now().Add(time.Duration(sec) * time.Second).UTC().Format(http.TimeFormat)
			}
			w.Header().Set("Retry-After", ra)
		}
		if act.Msgp {
			w.Header().Set("Content-Type", "application/msgpack")
			b, _ := msgpack.Marshal(map[string]string{"error": "scripted"})
			w.WriteHeader(act.Status)
			w.Write(b)
		} else {
			w.WriteHeader(act.Status)
			w.Write([]byte(`{"error":"scripted"}`))
		}
	case "hang":
		// never answers. The client's wait for the answer is made to time out
		// right now (net.Error with Timeout()==true out of httpClient.Do, as
		// with an elapsed send timeout) by expiring the read deadline of its
		// side of this connection; no real time is involved.
		if !conns.timeout(r.RemoteAddr) {
			select { // fallback: a connection we do not know; wait for the real timeout
			case <-r.Context().Done():
			case <-time.After(40 * time.Second):
			}
			return
		}
		if hj, ok := w.(http.Hijacker); ok {
			if c, _, err := hj.Hijack(); err == nil {
				conns.keep(c) // closed when the run ends; never written to
			}
		}
	case "close":
		if hj, ok := w.(http.Hijacker); ok {
			if c, _, err := hj.Hijack(); err == nil {
				c.Close()
				return
			}
		}
		w.WriteHeader(500)
	default:
		writeList(all(n, 202))
	}
}

// ---------------------------------------------------------------------------
// one scripted run

type c26Outcome struct {
	plan            *c26Plan
	reqs            []c26Req // final log (after the servers were closed)
	atStop          int      // number of log records when Stop returned
	pendAtStop      map[string]bool
	gauge           int64
	gaugeNames      []string
	respErrors      int64
	syncLost        string
	hangFallbacks   int
	foreign         int
	gridLost        bool
	overdue         *c26Overdue
	stopHung        bool
	stopFakeWait    time.Duration
	stopSlow        bool
	abandonedBefore int
	stopRealWait    time.Duration
}

type c26Runner struct {
	plan   *c26Plan
	clock  *clockwork.FakeClock
	t0     time.Time
	dt     *DirectTransmission
	m      *c26Metrics
	log    *c26Log
	byPtr  map[*types.Event]*c26Event
	byID   map[string]*c26Event
	timed  func(e *c26Event) bool
	enqTC  int
	lost   string
	nextTk time.Time
	// gridLost: the dispatcher did not handle a tick at the instant the driver
	// expected one; from then on the driver no longer waits for ticks (the
	// deadline oracle below does not depend on it, only its sensitivity does).
	gridLost bool
	overdue  *c26Overdue
}

type c26Overdue struct {
	Event   *c26Event `json:"event"`
	NowNs   int64     `json:"fake_now_ns"`
	AgeNs   int64     `json:"age_ns"`
	LimitNs int64     `json:"limit_ns"`
	Others  int       `json:"other_overdue_events"`
}

// watchdog budgets shrink after the first loss of synchronisation in a process
// so that a broken tree produces its verdict instead of a go test timeout.
var c26SyncLosses int

// c26Abandoned counts transmissions whose Stop never returned; their goroutines
// cannot be stopped and keep burning CPU in this process.
var c26Abandoned int

func c26Watchdog(d time.Duration) time.Time {
	if c26SyncLosses >= 3 {
		d /= 60
	} else if c26SyncLosses > 0 {
		d /= 8
	}
	return time.Now().Add(d)
}

// c26Backoff sleeps a little longer on every call (30us .. 1ms).
type c26Backoff struct{ d time.Duration }

func (b *c26Backoff) wait() {
	if b.d == 0 {
		b.d = 30 * time.Microsecond
	}
	time.Sleep(b.d)
	if b.d < time.Millisecond {
		b.d = b.d * 3 / 2
	}
}

func c26Unused() string {
	l, err := net.Listen("tcp", "127.0.0.1:0")
	if err != nil {
		return "http://127.0.0.1:1"
	}
	addr := l.Addr().String()
	l.Close()
	return "http://" + addr
}

func c26Execute(t *testing.T, p *c26Plan) *c26Outcome {
	clock := clockwork.NewFakeClockAt(time.Date(2026, 3, 4, 5, 6, 7, 0, time.UTC).Add(p.StartOffset))
	t0 := clock.Now()
	lg := &c26Log{seen: map[string]struct{}{}}
	var hosts []*c26Host
	conns := &c26Conns{byLocal: map[string]net.Conn{}}
	for i := range p.HostPrompt {
		h := &c26Host{idx: i, clock: clock, t0: t0, log: lg, script: p.Scripts[i], conns: conns}
		if i < len(p.RateLimit) {
			h.rl = p.RateLimit[i]
		}
		h.srv = httptest.NewServer(h)
		hosts = append(hosts, h)
	}
	for i := range p.Dests {
		d := &p.Dests[i]
		switch {
		case d.Host >= 0:
			d.HostURL = hosts[d.Host].srv.URL
		case d.Unobs == "refused":
			d.HostURL = c26Unused()
		case d.Unobs == "bad-url":
			d.HostURL = "http://bad host name:99"
		default:
			d.HostURL = "127.0.0.1:9"
		}
	}
	tr := &http.Transport{MaxIdleConnsPerHost: 8, DialContext: conns.dial}
	tt := types.TransmitTypeUpstream
	if p.Peer {
		tt = types.TransmitTypePeer
	}
	var hdr map[string]string
	if p.ExtraHdr {
		hdr = map[string]string{"X-Honeycomb-Team": "not-your-key", "X-Verif-Extra": "1"}
	}
	m := newC26Metrics()
	dt := NewDirectTransmission(tt, tr, p.MaxBatch, p.BatchTO, p.SendTO, p.Compress, hdr)
	dt.Config = &config.MockConfig{}
	dt.Logger = &logger.NullLogger{}
	dt.Version = "verif"
	dt.Clock = clock
	dt.Metrics = m
	if err := dt.Start(); err != nil {
		t.Fatalf("C26 harness: Start: %v", err)
	}
	ctx, cancel := context.WithTimeout(context.Background(), 20*time.Second)
	if err := clock.BlockUntilContext(ctx, 2); err != nil {
		cancel()
		t.Fatalf("C26 harness: dispatcher tickers never registered")
	}
	cancel()

	r := &c26Runner{plan: p, clock: clock, t0: t0, dt: dt, m: m, log: lg,
		byPtr: map[*types.Event]*c26Event{}, byID: map[string]*c26Event{}}
	r.nextTk = t0.Add(p.BatchTO / 4)
	r.timed = func(e *c26Event) bool {
		return e.Class == "deliverable" && p.HostPrompt[p.Dests[e.Dest].Host]
	}
	cfg := &config.MockConfig{}
	base := time.Date(2026, 3, 4, 0, 0, 0, 123456789, time.UTC)
	for i, e := range p.Events {
		d := p.Dests[e.Dest]
		off := (i * 37) % 1000
		data := map[string]any{"verif.id": e.ID, "pad": c26PadBase[off : off+e.Pad]}
		if e.Pad < 70_000 {
			data["n"] = i
			data["f"] = 1.5
			data["nested"] = map[string]any{"a": 1, "b": "two"}
		}
		if e.Class == "unmarshalable" {
			data["bad"] = make(chan int)
		}
		e.ev = &types.Event{Context: context.Background(), APIHost: d.HostURL, APIKey: d.Key, Dataset: d.Dataset,
			Environment: "verif", SampleRate: 7, Timestamp: base.Add(time.Duration(i) * time.Millisecond),
			Data: types.NewPayload(cfg, data)}
		r.byPtr[e.ev] = e
		r.byID[e.ID] = e
	}

	for si := range p.Steps {
		r.step(si)
	}

	out := &c26Outcome{plan: p, pendAtStop: map[string]bool{}}
	for _, ev := range c26Pending(dt) {
		if e := r.byPtr[ev]; e != nil {
			out.pendAtStop[e.ID] = true
		}
	}
	onRL := func(e *c26Event) bool {
		h := p.Dests[e.Dest].Host
		return e.Class == "deliverable" && h >= 0 && h < len(p.RateLimit) && p.RateLimit[h] != nil
	}
	enqRL := 0
	for _, e := range p.Events {
		if onRL(e) {
			enqRL++
		}
	}
	for _, h := range hosts {
		h.setStopping()
	}
	done := make(chan int, 1)
	go func() {
		dt.Stop()
		lg.mu.Lock()
		n := len(lg.reqs)
		lg.mu.Unlock()
		done <- n
	}()
	// Bounded progress: Stop has to return within a generous real-time budget while
	// fake time is pushed far beyond every Retry-After (7 s per iteration below).
	// The verdict "did not return" additionally needs a final observation window
	// without any progress (no new request, no metric activity).
	stopBudget, stillWindow := 100*time.Second, 20*time.Second
	if c26Abandoned > 0 { // process already polluted by a spinning transmission; a verdict exists
		stopBudget, stillWindow = 15*time.Second, 5*time.Second
	}
	progress := func() int64 {
		lg.mu.Lock()
		n := int64(len(lg.reqs))
		lg.mu.Unlock()
		return n + m.activity()
	}
	stopCalledAt := clock.Now()
	watchdog := time.After(stopBudget)
	// the fake clock stays put until everything for prompt hosts has arrived
	// (arrival instants of the flush are then comparable with enqueue instants)
	hold := c26Watchdog(40 * time.Second)
	holding := r.lost == ""
	var bo c26Backoff
wait:
	for {
		select {
		case n := <-done:
			out.atStop = n
			break wait
		case <-watchdog:
			before := progress()
			for end := time.Now().Add(stillWindow); time.Now().Before(end); {
				clock.Advance(time.Minute)
				time.Sleep(5 * time.Millisecond)
				select {
				case n := <-done:
					out.atStop = n
					break wait
				default:
				}
			}
			if progress() != before {
				out.stopSlow = true // still working: a matter of machine load, not a verdict
			}
			out.stopHung = true
			out.stopFakeWait = clock.Now().Sub(stopCalledAt)
			out.stopRealWait = stopBudget + stillWindow
			out.abandonedBefore = c26Abandoned
			c26Abandoned++
			c26SyncLosses++
			break wait
		default:
			if holding {
				seen := lg.seenCount(func(id string) bool { e := r.byID[id]; return e != nil && r.timed(e) })
				if seen >= r.enqTC {
					holding = false
					bo = c26Backoff{}
					if enqRL > 0 {
						// Best effort, affects sensitivity only: before fake time jumps, give
						// the flush to rate-limit-window hosts the chance to arrive and let
						// the request log settle (a sender that does not wait on the fake
						// clock retries within microseconds).
						lim := time.Now().Add(300 * time.Millisecond)
						for time.Now().Before(lim) && lg.seenCount(func(id string) bool { e := r.byID[id]; return e != nil && onRL(e) }) < enqRL {
							time.Sleep(100 * time.Microsecond)
						}
						for last, quiet := -1, 0; quiet < 3 && time.Now().Before(lim); {
							lg.mu.Lock()
							n := len(lg.reqs)
							lg.mu.Unlock()
							if n == last {
								quiet++
							} else {
								last, quiet = n, 0
							}
							time.Sleep(time.Millisecond)
						}
					}
				} else if time.Now().After(hold) {
					holding = false
					r.lost = fmt.Sprintf("flush by Stop: only %d of %d events for prompt hosts arrived within the watchdog", seen, r.enqTC)
					c26SyncLosses++
				}
				bo.wait()
				continue
			}
			// wake retry sleepers: from here on fake time only has to pass
			clock.Advance(7 * time.Second)
			bo.wait()
		}
	}
	out.gauge, out.gaugeNames = m.bySuffix(m.updown, "_queued_items")
	out.respErrors, _ = m.bySuffix(m.count, "_response_errors")
	tr.CloseIdleConnections()
	conns.closeHeld()
	for _, h := range hosts {
		h.srv.Close() // waits for outstanding handlers
	}
	out.hangFallbacks = conns.misses
	out.foreign = conns.foreign
	out.reqs = lg.snapshot()
	out.syncLost = r.lost
	out.gridLost = r.gridLost
	out.overdue = r.overdue
	return out
}

func (r *c26Runner) step(si int) {
	st := r.plan.Steps[si]
	now := r.clock.Now()
	for _, ei := range st.Events {
		e := r.plan.Events[ei]
		e.Step = si
		e.EnqAtNs = int64(now.Sub(r.t0))
		if r.timed(e) {
			r.enqTC++
		}
	}
	enqueue := func() *sync.WaitGroup {
		var wg sync.WaitGroup
		w := st.Workers
		for k := 0; k < w; k++ {
			wg.Add(1)
			go func(k int) {
				defer wg.Done()
				for j := k; j < len(st.Events); j += w {
					r.dt.EnqueueEvent(r.plan.Events[st.Events[j]].ev)
				}
			}(k)
		}
		return &wg
	}
	remaining := time.Duration(st.AdvNs)
	if st.Racy {
		// enqueue while the clock reaches the next dispatcher tick (<= BatchTimeout/4 away)
		wg := enqueue()
		d := r.nextTk.Sub(r.clock.Now())
		r.toTick(d)
		wg.Wait()
		r.quiesce()
		r.checkDeadline()
		remaining -= d
	} else {
		enqueue().Wait()
		r.quiesce()
	}
	for remaining > 0 {
		d := r.nextTk.Sub(r.clock.Now())
		if remaining < d {
			r.clock.Advance(remaining)
			r.checkDeadline()
			return
		}
		r.toTick(d)
		r.quiesce()
		r.checkDeadline()
		remaining -= d
	}
}

// checkDeadline is the dispatch-deadline oracle: at the current fake instant
// no event for a prompt host may still sit in a pending batch once more than
// 1.25 x BatchTimeout of fake time has passed since it was enqueued. The
// dispatcher gets real time to act on the instant (bounded poll); the fake
// clock is not moved meanwhile.
func (r *c26Runner) checkDeadline() {
	if r.overdue != nil {
		return
	}
	now := int64(r.clock.Now().Sub(r.t0))
	limit := int64(r.plan.BatchTO) * 5 / 4
	deadline := c26Watchdog(30 * time.Second)
	var bo c26Backoff
	for {
		var worst *c26Event
		n := 0
		for _, ev := range c26Pending(r.dt) {
			if e := r.byPtr[ev]; e != nil && r.timed(e) && now-e.EnqAtNs > limit {
				n++
				if worst == nil || e.EnqAtNs < worst.EnqAtNs {
					worst = e
				}
			}
		}
		if worst == nil {
			return
		}
		if time.Now().After(deadline) {
			r.overdue = &c26Overdue{Event: worst, NowNs: now, AgeNs: now - worst.EnqAtNs, LimitNs: limit, Others: n - 1}
			c26SyncLosses++
			return
		}
		bo.wait()
	}
}

// toTick advances the fake clock exactly onto the next dispatcher tick and
// waits until the dispatcher has finished handling it.
func (r *c26Runner) toTick(d time.Duration) {
	before := r.m.staleTicks()
	r.clock.Advance(d)
	r.nextTk = r.nextTk.Add(r.plan.BatchTO / 4)
	if r.gridLost {
		return
	}
	deadline := c26Watchdog(10 * time.Second) // watchdog, not an oracle
	var bo c26Backoff
	for r.m.staleTicks() <= before {
		if time.Now().After(deadline) {
			r.gridLost = true
			c26SyncLosses++
			return
		}
		bo.wait()
	}
}

// quiesce waits until every event for a prompt host that has left its pending
// batch has been seen by a server, so that the fake clock only moves while
// nothing is between "dispatched" and "arrived".
func (r *c26Runner) quiesce() {
	if r.lost != "" {
		return
	}
	deadline := c26Watchdog(40 * time.Second) // watchdog, not an oracle
	var bo c26Backoff
	for {
		pend := 0
		for _, ev := range c26Pending(r.dt) {
			if e := r.byPtr[ev]; e != nil && r.timed(e) {
				pend++
			}
		}
		seen := r.log.seenCount(func(id string) bool { e := r.byID[id]; return e != nil && r.timed(e) })
		if r.enqTC-pend == seen {
			return
		}
		if time.Now().After(deadline) {
			r.lost = fmt.Sprintf("quiescence not reached: enqueued=%d pending=%d seen=%d (prompt hosts)", r.enqTC, pend, seen)
			c26SyncLosses++
			return
		}
		bo.wait()
	}
}

// ---------------------------------------------------------------------------
// offline checker

type c26Body struct {
	Hash     string   `json:"hash"`
	Attempts int      `json:"attempts"`
	Actions  []string `json:"actions"`
	First    c26Req   `json:"first_request"`
}

func c26Brief(r c26Req) c26Req {
	if len(r.IDs) > 12 {
		r.IDs = append(append([]string(nil), r.IDs[:12]...), fmt.Sprintf("...(%d)", len(r.IDs)))
	}
	return r
}

func c26ActionClass(actions []string) string {
	has := map[string]bool{}
	for _, a := range actions {
		switch {
		case strings.HasPrefix(a, "retry-sleep"), strings.HasPrefix(a, "ratelimit"):
			has["retry-after-under-60"] = true
		case strings.HasPrefix(a, "retry-no-sleep"):
			has["retry-after-60-or-more"] = true
		case a == "hang":
			has["timeout"] = true
		default:
			has["final-answer"] = true
		}
	}
	var ks []string
	for k := range has {
		ks = append(ks, k)
	}
	sort.Strings(ks)
	return strings.Join(ks, "+")
}

func c26Check(run *verifkit.Run, o *c26Outcome) {
	p := o.plan
	byID := map[string]*c26Event{}
	for _, e := range p.Events {
		byID[e.ID] = e
	}
	type witness struct {
		Plan  *c26Plan `json:"plan"`
		Note  string   `json:"note,omitempty"`
		Event any      `json:"event,omitempty"`
		Body  any      `json:"body,omitempty"`
		Reqs  any      `json:"requests,omitempty"`
		Extra any      `json:"extra,omitempty"`
	}
	briefPlan := *p
	if len(briefPlan.Dests) > 40 {
		briefPlan.Dests = briefPlan.Dests[:40]
	}
	if len(briefPlan.Steps) > 0 {
		steps := append([]c26Step(nil), briefPlan.Steps...)
		for i := range steps {
			if len(steps[i].Events) > 80 {
				steps[i].Events = steps[i].Events[:80]
			}
		}
		briefPlan.Steps = steps
	}
	if len(briefPlan.Events) > 80 {
		briefPlan.Events = briefPlan.Events[:80]
	}
	allReqs := func() []c26Req {
		rs := make([]c26Req, 0, len(o.reqs))
		for _, r := range o.reqs {
			rs = append(rs, c26Brief(r))
		}
		if len(rs) > 60 {
			rs = rs[:60]
		}
		return rs
	}

	if o.stopHung {
		// the transmission is abandoned (its goroutines cannot be stopped); what it
		// had settled by then is part of the witness
		cls := "no-event-over-5MB"
		nUnsettled := 0
		seenIDs := map[string]bool{}
		for _, rq := range o.reqs {
			for _, id := range rq.IDs {
				seenIDs[id] = true
			}
		}
		for _, e := range p.Events {
			if e.Pred > c26MaxBody-8 {
				cls = "with-event-over-5MB"
			}
			if e.Class == "deliverable" && !seenIDs[e.ID] {
				nUnsettled++
			}
		}
		if o.stopSlow {
			run.Inconclusive(fmt.Sprintf("Stop did not return within %v but the transmission was still making progress (machine load)", o.stopRealWait))
			return
		}
		if cls == "no-event-over-5MB" && o.abandonedBefore > 0 {
			run.Inconclusive(fmt.Sprintf("Stop did not return within %v in a process that already holds %d abandoned, still spinning transmissions", o.stopRealWait, o.abandonedBefore))
			return
		}
		run.Violation("C26/stop/did-not-return/"+cls,
			fmt.Sprintf("Stop had not returned after %v of real time and %v of fake time; %d deliverable events were in no request, %s is %d, *_response_errors %d", o.stopRealWait, o.stopFakeWait.Round(time.Second), nUnsettled, strings.Join(o.gaugeNames, ","), o.gauge, o.respErrors),
			witness{Plan: &briefPlan, Reqs: allReqs()})
		return
	}

	// group requests into batch bodies
	bodies := map[string]*c26Body{}
	var order []string
	aborted := map[int]int{}
	placed := map[string][]string{}   // id -> body hashes (one per distinct body, or repeated if twice within one)
	placedAtStop := map[string]bool{} // id seen in a request logged before Stop returned
	servedKinds := map[string]bool{}
	for _, rq := range o.reqs {
		if rq.Aborted {
			aborted[rq.Host]++
			continue
		}
		servedKinds[strings.SplitN(rq.Action, ":", 2)[0]] = true
		if rq.DecodeErr != "" {
			run.Violation("C26/body/undecodable", "a request body could not be decoded by the independent zstd+msgpack decoder: "+rq.DecodeErr,
				witness{Plan: &briefPlan, Body: c26Brief(rq)})
			continue
		}
		if rq.Seq < o.atStop {
			for _, id := range rq.IDs {
				placedAtStop[id] = true
			}
		}
		b := bodies[rq.Hash]
		if b == nil {
			b = &c26Body{Hash: rq.Hash, First: rq}
			bodies[rq.Hash] = b
			order = append(order, rq.Hash)
			inBody := map[string]bool{}
			for _, id := range rq.IDs {
				if inBody[id] {
					run.Violation("C26/once/duplicate/within-one-body", "event "+id+" appears twice in one batch body", witness{Plan: &briefPlan, Body: c26Brief(rq)})
				}
				inBody[id] = true
				placed[id] = append(placed[id], rq.Hash)
			}
		} else if b.First.Host != rq.Host || b.First.Path != rq.Path || strings.Join(b.First.Keys, ",") != strings.Join(rq.Keys, ",") {
			run.Violation("C26/address/retry-changed-destination", "the same batch body was sent to two different destinations",
				witness{Plan: &briefPlan, Body: []c26Req{c26Brief(b.First), c26Brief(rq)}})
		}
		b.Attempts++
		b.Actions = append(b.Actions, rq.Action)
	}

	nOver, nRetried, nSplitish := 0, 0, 0
	for _, h := range order {
		b := bodies[h]
		rq := b.First
		if rq.BodyLen > c26MaxBody {
			run.Violation("C26/limit/body-over-5MB", fmt.Sprintf("request body of %d bytes (serialized, before compression) exceeds 5 MB", rq.BodyLen),
				witness{Plan: &briefPlan, Body: c26Brief(rq)})
		}
		if rq.BodyLen > c26MaxBody-1_100_000 {
			nSplitish++
		}
		if len(rq.IDs) > p.MaxBatch {
			run.Violation("C26/limit/batch-over-max-events", fmt.Sprintf("batch holds %d events, MaxBatchSize is %d", len(rq.IDs), p.MaxBatch),
				witness{Plan: &briefPlan, Body: c26Brief(rq)})
		}
		if b.Attempts > 1 {
			nRetried++
		}
		if b.Attempts > 2 {
			run.Violation("C26/attempts/more-than-two/after-"+c26ActionClass(b.Actions[:len(b.Actions)-1]), fmt.Sprintf("one batch body was sent %d times (answers: %v)", b.Attempts, b.Actions),
				witness{Plan: &briefPlan, Body: b})
		}
		dataset, derr := "", error(nil)
		if strings.HasPrefix(rq.Path, "/1/batch/") {
			dataset, derr = url.PathUnescape(strings.TrimPrefix(rq.Path, "/1/batch/"))
		} else {
			derr = fmt.Errorf("path is not /1/batch/<dataset>")
		}
		var oldest int64 = -1
		onlyDeliverable := true
		for k, id := range rq.IDs {
			e := byID[id]
			if e == nil {
				run.Violation("C26/body/unknown-event", fmt.Sprintf("a batch contains an event that was never enqueued in this run (verif.id %q)", id),
					witness{Plan: &briefPlan, Body: c26Brief(rq)})
				continue
			}
			d := p.Dests[e.Dest]
			onlyDeliverable = onlyDeliverable && e.Class == "deliverable"
			if d.Host != rq.Host {
				run.Violation("C26/address/host", fmt.Sprintf("event %s for host #%d arrived at host #%d", id, d.Host, rq.Host),
					witness{Plan: &briefPlan, Event: e, Body: c26Brief(rq)})
			}
			if len(rq.Keys) != 1 || rq.Keys[0] != d.Key {
				run.Violation("C26/address/key", fmt.Sprintf("event %s with API key %q sent with X-Honeycomb-Team %q", id, d.Key, rq.Keys),
					witness{Plan: &briefPlan, Event: e, Body: c26Brief(rq)})
			}
			if (derr != nil || dataset != d.Dataset) && (d.Dataset == "." || d.Dataset == "..") {
				run.Violation("C26/address/dataset-dot-segment", fmt.Sprintf("event %s for dataset %q sent to path %q (%v)", id, d.Dataset, rq.Path, derr),
					witness{Plan: &briefPlan, Event: e, Body: c26Brief(rq)})
			} else if derr != nil || dataset != d.Dataset {
				run.Violation("C26/address/dataset", fmt.Sprintf("event %s for dataset %q sent to path %q (%v)", id, d.Dataset, rq.Path, derr),
					witness{Plan: &briefPlan, Event: e, Body: c26Brief(rq)})
			}
			sz := rq.Sizes[k]
			if e.Pred != 0 && e.Pred != sz {
				run.Inconclusive(fmt.Sprintf("harness: predicted wire size %d of event %s differs from measured %d", e.Pred, id, sz))
			}
			if sz > c26MaxEvent {
				nOver++
				run.Violation("C26/limit/oversize-event-sent", fmt.Sprintf("event %s serialises to %d bytes (> 1 MB) and was sent", id, sz),
					witness{Plan: &briefPlan, Event: e, Body: c26Brief(rq)})
			}
			if oldest < 0 || e.EnqAtNs < oldest {
				oldest = e.EnqAtNs
			}
		}
		// dispatch deadline, fake clock, prompt hosts only
		if o.syncLost == "" && !o.gridLost && onlyDeliverable && oldest >= 0 && rq.Host < len(p.HostPrompt) && p.HostPrompt[rq.Host] {
			limit := int64(p.BatchTO) * 5 / 4
			if rq.ArrivedNs-oldest > limit {
				run.Violation("C26/timing/dispatch-later-than-1.25-batch-timeout",
					fmt.Sprintf("batch first arrived %v after its oldest event was enqueued (fake clock), limit %v", time.Duration(rq.ArrivedNs-oldest), time.Duration(limit)),
					witness{Plan: &briefPlan, Body: c26Brief(rq)})
			}
			run.Count("bodies_timing_checked", 1)
		}
	}

	if o.overdue != nil {
		run.Violation("C26/timing/still-pending-after-1.25-batch-timeout",
			fmt.Sprintf("event %s was still in a pending batch %v (fake clock) after it was enqueued, limit %v", o.overdue.Event.ID, time.Duration(o.overdue.AgeNs), time.Duration(o.overdue.LimitNs)),
			witness{Plan: &briefPlan, Event: o.overdue, Reqs: allReqs()})
	}
	if o.gridLost {
		run.Count("cases_dispatcher_tick_not_seen_when_expected", 1)
	}
	if o.foreign > 0 {
		run.Count("foreign_requests_ignored", int64(o.foreign))
	}
	if o.hangFallbacks > 0 {
		run.Count("hang_answers_that_fell_back_to_the_real_timeout", int64(o.hangFallbacks))
	}

	// exactly once
	nDeliverable, nOversize, nMustCount := 0, 0, 0
	missingSeen := false
	for _, e := range p.Events {
		hs := placed[e.ID]
		switch e.Class {
		case "oversize":
			nOversize++
			nMustCount++
			continue // presence is reported by oversize-event-sent
		case "unmarshalable":
			nMustCount++
			continue
		case "unobservable":
			continue
		}
		nDeliverable++
		host := p.Dests[e.Dest].Host
		if len(hs) == 0 {
			if aborted[host] > 0 {
				run.Count("missing_excused_by_aborted_body_read", 1)
				continue
			}
			missingSeen = true
			if o.pendAtStop[e.ID] {
				run.Violation("C26/stop/pending-not-sent", "event "+e.ID+" was pending when Stop was called and was in no request when all servers had shut down",
					witness{Plan: &briefPlan, Event: e, Reqs: allReqs()})
			} else {
				run.Violation("C26/once/missing/"+p.Profile, "event "+e.ID+" was enqueued and is in no request body",
					witness{Plan: &briefPlan, Event: e, Reqs: allReqs()})
			}
			continue
		}
		if len(hs) > 1 {
			distinct := map[string]bool{}
			for _, h := range hs {
				distinct[h] = true
			}
			if len(distinct) > 1 {
				var bs []c26Req
				for h := range distinct {
					bs = append(bs, c26Brief(bodies[h].First))
				}
				run.Violation("C26/once/duplicate/distinct-bodies", fmt.Sprintf("event %s is in %d distinct batch bodies", e.ID, len(distinct)),
					witness{Plan: &briefPlan, Event: e, Body: bs})
			}
		}
		// rate-limit-window host: whoever waits out Retry-After is accepted on the
		// second attempt, so an event that was only ever rejected was written off
		// although nothing but waiting was asked for
		if host < len(p.RateLimit) && p.RateLimit[host] != nil {
			accepted := false
			var bs []*c26Body
			for _, h := range hs {
				bs = append(bs, bodies[h])
				for _, a := range bodies[h].Actions {
					accepted = accepted || a == "ok"
				}
			}
			if accepted {
				run.Count("events_accepted_by_rate_limit_window_hosts", 1)
			} else if o.pendAtStop[e.ID] {
				run.Violation("C26/stop/pending-not-sent", "event "+e.ID+" was pending when Stop was called; its batch was only ever sent inside the host's Retry-After window (every attempt rejected) and so never delivered",
					witness{Plan: &briefPlan, Event: e, Body: bs, Reqs: allReqs()})
			} else {
				run.Violation("C26/stop/sleeping-retry-not-sent", "the batch of event "+e.ID+" was only ever sent inside the host's Retry-After window (every attempt rejected, retry did not wait for Retry-After) and so never delivered",
					witness{Plan: &briefPlan, Event: e, Body: bs, Reqs: allReqs()})
			}
		}
		// Stop clause: every record is written before its exchange ends, so the log at the instant Stop returns is complete
		if o.hangFallbacks == 0 && !placedAtStop[e.ID] {
			run.Violation("C26/stop/sent-after-stop-returned", "event "+e.ID+" first reached a server after Stop had returned",
				witness{Plan: &briefPlan, Event: e, Reqs: allReqs(), Extra: map[string]int{"records_when_stop_returned": o.atStop}})
		}
	}
	if o.hangFallbacks == 0 && len(o.reqs) > o.atStop {
		run.Violation("C26/stop/request-after-stop-returned", fmt.Sprintf("%d request(s) reached a server after Stop had returned", len(o.reqs)-o.atStop),
			witness{Plan: &briefPlan, Reqs: allReqs(), Extra: map[string]int{"records_when_stop_returned": o.atStop}})
	}

	// oversize (and unserialisable) events are counted as errors
	if o.respErrors < int64(nMustCount)-int64(nOver) {
		run.Violation("C26/limit/dropped-event-not-counted", fmt.Sprintf("%d events could not be sent (over 1 MB / unserialisable) but *_response_errors is %d", nMustCount, o.respErrors),
			witness{Plan: &briefPlan})
	}

	// queued-items gauge
	if len(o.gaugeNames) != 1 {
		run.Inconclusive(fmt.Sprintf("harness: expected one *_queued_items updown, saw %v", o.gaugeNames))
	} else if o.gauge != 0 {
		sign := "positive"
		if o.gauge < 0 {
			sign = "negative"
		}
		var kinds []string
		for k := range servedKinds {
			if k != "ok" {
				kinds = append(kinds, k)
			}
		}
		for _, e := range p.Events {
			if e.Class != "deliverable" {
				kinds = append(kinds, e.Class)
			}
		}
		sort.Strings(kinds)
		kinds = c26Uniq(kinds)
		cls := "mixed"
		if missingSeen {
			cls = "with-unsent-events"
		} else if len(kinds) == 1 {
			cls = kinds[0]
		} else if len(kinds) == 0 {
			cls = "all-accepted"
		}
		run.Violation("C26/gauge/nonzero-after-all-outcomes/"+sign+"/"+cls,
			fmt.Sprintf("%s is %d after Stop returned (every event has an outcome); paths exercised: %v", o.gaugeNames[0], o.gauge, kinds),
			witness{Plan: &briefPlan, Reqs: allReqs()})
	}

	if o.syncLost != "" && !missingSeen {
		run.Inconclusive("C26 driver: " + o.syncLost)
	}

	// evidence
	run.Count("events_enqueued", int64(len(p.Events)))
	run.Count("events_deliverable", int64(nDeliverable))
	run.Count("events_over_1MB", int64(nOversize))
	run.Count("requests_observed", int64(len(o.reqs)))
	run.Count("bodies_distinct", int64(len(bodies)))
	run.Count("bodies_retried", int64(nRetried))
	run.Count("bodies_within_1.1MB_of_limit", int64(nSplitish))
	run.Count("events_pending_at_stop", int64(len(o.pendAtStop)))
	for h, n := range aborted {
		_ = h
		run.Count("aborted_body_reads", int64(n))
	}
	var kinds []string
	for k := range servedKinds {
		kinds = append(kinds, k)
		run.Count("served_"+k, 1)
	}
	sort.Strings(kinds)
	if len(o.reqs) > 0 {
		run.Nontrivial(fmt.Sprintf("%s|%v|retried=%v|nearlimit=%v|over=%v|pend=%v|hosts=%d|dests=%d|mb=%d", p.Profile, kinds, nRetried > 0, nSplitish > 0, nOversize > 0, len(o.pendAtStop) > 0, len(p.HostPrompt), len(p.Dests), p.MaxBatch))
	}
}

func c26Uniq(s []string) []string {
	var out []string
	for i, x := range s {
		if i == 0 || x != s[i-1] {
			out = append(out, x)
		}
	}
	return out
}

// c26Calibrate measures, on the wire, the serialised size of an event with a
// pad of n bytes and returns size-n (constant for n >= 65536 with the fixed id
// length, sample rate and timestamp shape the generator uses).
func c26Calibrate(t *testing.T) int {
	p := &c26Plan{Profile: "calibrate", MaxBatch: 1, BatchTO: 100 * time.Millisecond, SendTO: 30 * time.Second,
		HostPrompt: []bool{true}, Scripts: [][]c26Action{nil},
		Dests:  []c26Dest{{Host: 0, Key: "key-A", Dataset: "ds"}},
		Events: []*c26Event{{ID: "c00000-e00000", Pad: 100_000, Class: "deliverable"}, {ID: "c00000-e00001", Pad: 300_001, Class: "deliverable"}},
		Steps:  []c26Step{{Events: []int{0, 1}, Workers: 1}}}
	o := c26Execute(t, p)
	var oh []int
	for _, rq := range o.reqs {
		for k, id := range rq.IDs {
			for _, e := range p.Events {
				if e.ID == id {
					oh = append(oh, rq.Sizes[k]-e.Pad)
				}
			}
		}
	}
	if len(oh) != 2 || oh[0] != oh[1] || oh[0] <= 0 || oh[0] > 200 {
		t.Fatalf("C26 harness: calibration failed: %v (requests %+v)", oh, o.reqs)
	}
	return oh[0]
}

func TestVerif_C26(t *testing.T) {
	run := verifkit.Start(t, "C26", "transmit")
	defer run.Finish()
	run.Rule("one case = one scripted run of a real DirectTransmission (fake clock) against 1-3 fake API hosts: PRNG-chosen MaxBatchSize/BatchTimeout/compression/type, 1-4 destinations (host,key,dataset incl. datasets needing URL escaping) plus occasionally an unreachable one, event sizes by profile (small; medium up to 400 KB; large = groups whose body totals land on 5 MB-100KB..5 MB+100KB incl. +-1..5 bytes, single events of 1 MB-1000..1 MB+200000 incl. exactly 1 MB and 1 MB+1, occasionally one event of 5 MB-6..5.2 MB, also among small events; hang = small events with hanging answers in the palette; a hanging answer makes the client's wait time out at once by expiring the read deadline of its connection, no real timeout is used), enqueue steps from 1-4 goroutines, some racing the dispatcher tick, fake-clock advances of 0..2xBatchTimeout split at tick instants, per-host answer scripts drawn from a 0-3 kind fault palette (all-202 json/msgpack, per-event statuses, short/long list, garbage, empty, 400..504, 429/503 with Retry-After absent/0.01/1/59/59.9/60/61/3600/0/-1/HTTP-dates/garbage, hang, connection close; some hosts instead run a rate-limit window: 429/503 with Retry-After r in 1..59 s for every request from a trigger - the n-th request or the first request after Stop was called - until the fake clock reaches trigger+r, all-202 otherwise), then Stop while events are pending and senders sleep on Retry-After. Separate high-cardinality cases: 501..1200 destinations (distinct datasets, all-202 hosts) get a partial batch at one fake instant strictly inside a dispatcher tick interval and the clock is walked to 1.25 x BatchTimeout + 1 ns after it. Non-trivial = at least one request observed; distinct = profile x answer kinds served x {retried, near-5MB body, >1MB event, pending at Stop} x topology")
	run.Assume("1 MB = 1,000,000 and 5 MB = 5,000,000 bytes (the Honeycomb API limits the package constants encode); body size is the serialized msgpack body before compression")
	run.Assume("clockwork.FakeClock is the transmission's only clock for batching and Retry-After sleeps; the real client send timeout (30 s) never fires; a timed-out exchange is one whose httpClient.Do returned a net.Error with Timeout()==true, produced by expiring the connection read deadline")
	run.Assume("dispatch deadline is checked for hosts whose script never makes a sender sleep or hang (a later sub-batch of a split batch is sent only after the previous one was answered)")
	run.Assume("request logs of the fake hosts are complete: every request is recorded before it is answered; net/http does not replay POST bodies by itself")

	overhead := c26Calibrate(t)
	run.Count("calibrated_event_overhead_bytes", int64(overhead))

	run.Cases("run", run.N(150, 3000), func(i int, rng *verifkit.Rand) {
		p := c26Plan_(rng, i, overhead, run.Thorough())
		started := time.Now()
		o := c26Execute(t, p)
		c26Check(run, o)
		t.Logf("case %d %s mb=%d bt=%v events=%d reqs=%d wall=%v syncLost=%q gridLost=%v", i, p.Profile, p.MaxBatch, p.BatchTO, len(p.Events), len(o.reqs), time.Since(started).Round(time.Millisecond), o.syncLost, o.gridLost)
		if i < 3 {
			run.Sample(map[string]any{"profile": p.Profile, "max_batch": p.MaxBatch, "batch_timeout": p.BatchTO.String(), "palette": p.Palette,
				"dests": p.Dests, "events": len(p.Events), "steps": len(p.Steps), "requests": len(o.reqs)})
		}
	})

	run.Cases("highcard", run.N(2, 16), func(i int, rng *verifkit.Rand) {
		p := c26HighCardPlan(rng, i)
		started := time.Now()
		o := c26Execute(t, p)
		c26Check(run, o)
		run.Count("highcard_destinations", int64(len(p.Dests)))
		t.Logf("highcard %d dests=%d mb=%d bt=%v events=%d reqs=%d wall=%v syncLost=%q gridLost=%v", i, len(p.Dests), p.MaxBatch, p.BatchTO, len(p.Events), len(o.reqs), time.Since(started).Round(time.Millisecond), o.syncLost, o.gridLost)
		if i == 0 {
			run.Sample(map[string]any{"profile": p.Profile, "max_batch": p.MaxBatch, "batch_timeout": p.BatchTO.String(), "destinations": len(p.Dests), "events": len(p.Events), "steps": p.Steps[0].AdvNs, "requests": len(o.reqs)})
		}
	})
}
